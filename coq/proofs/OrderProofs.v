(* OrderProofs.v — C09 for ALL strings at the level of the parser model: the relative order of the
   -u- and -t- extensions, the order of -u- keywords / -t- fields with distinct keys, the order and
   repetition of -u- attributes and of variants never change the result.  The hypotheses only describe
   the shape of the permuted part; everything around it (prefix, remainder) is arbitrary, well-formed
   or not. *)
From UL Require Import Bytes Subtags LangId Ext Grammar LangIdSpec LocaleInv AbstractLocale LocaleSpec
                       BytesProofs SubtagProofs SortProofs SplitProofs LangIdProofs CanonProofs ExtProofs KmapProofs InvProofs
                       RoundTrip PermProofs KvProofs LocaleSpecProofs.
From Coq Require Import Lia ZifyBool ZifyN.
Open Scope N_scope.
Arguments N.add : simpl never.
Arguments N.sub : simpl never.
Arguments N.leb : simpl never.
Arguments N.eqb : simpl never.

(* ---------------------------------------------------------------- suffixes *)
Definition suffix (rem toks : list bytes) : Prop := exists pre, toks = pre ++ rem.
Lemma suffix_refl l : suffix l l. Proof. exists []. reflexivity. Qed.
Lemma suffix_nil l : suffix [] l. Proof. exists l. rewrite app_nil_r. reflexivity. Qed.
Lemma suffix_cons rem x l : suffix rem l -> suffix rem (x :: l).
Proof. intros [p ->]. exists (x :: p). reflexivity. Qed.
Lemma suffix_trans a b c : suffix a b -> suffix b c -> suffix a c.
Proof. intros [p ->] [q ->]. exists (q ++ p). rewrite app_assoc. reflexivity. Qed.
Lemma suffix_forallb (p : bytes -> bool) rem toks : suffix rem toks -> forallb p toks = true -> forallb p rem = true.
Proof. intros [q ->] H. rewrite forallb_app in H. apply andb_true_iff in H as [_ H]. exact H. Qed.
Lemma suffix_length rem toks : suffix rem toks -> (length rem <= length toks)%nat.
Proof. intros [q ->]. rewrite app_length. lia. Qed.

Lemma drop_while_suffix p l : suffix (drop_while p l) l.
Proof. induction l as [|x l IH]; cbn [drop_while]; [apply suffix_refl|]. destruct (p x); [apply suffix_cons; exact IH|apply suffix_refl]. Qed.

Lemma spec_langid_prefix_suffix toks v rem : spec_langid_prefix toks = Some (v, rem) -> suffix rem toks.
Proof.
  unfold spec_langid_prefix. destruct toks as [|l rest]; [intros H; injection H as _ <-; apply suffix_refl|].
  destruct (lang_tok l); [|discriminate].
  destruct (take_script rest) as [sc r1] eqn:Es. destruct (take_region r1) as [rg r2] eqn:Er.
  intros H. injection H as _ <-.
  assert (S1 : suffix r1 rest).
  { destruct rest as [|t r]; cbn [take_script] in Es; [injection Es as _ <-; apply suffix_refl|].
    destruct (script_tok t); injection Es as _ <-; [apply suffix_cons|]; apply suffix_refl. }
  assert (S2 : suffix r2 r1).
  { destruct r1 as [|t r]; cbn [take_region] in Er; [injection Er as _ <-; apply suffix_refl|].
    destruct (region_tok t); injection Er as _ <-; [apply suffix_cons|]; apply suffix_refl. }
  apply suffix_cons. eapply suffix_trans; [apply drop_while_suffix|]. eapply suffix_trans; eassumption.
Qed.
Lemma langid_from_iter_suffix toks allow v rem : langid_from_iter toks allow = Ok (v, rem) -> suffix rem toks.
Proof.
  rewrite langid_from_iter_spec. destruct (spec_langid_prefix toks) as [[v' rem']|] eqn:E; [|discriminate].
  destruct (negb allow && _); [discriminate|]. intros H. injection H as _ <-. exact (spec_langid_prefix_suffix _ _ _ E).
Qed.

Lemma u_loop_suffix toks : forall cur types kws attrs u rem,
  u_loop cur types kws attrs toks = Ok (u, rem) -> suffix rem toks.
Proof.
  induction toks as [|t rest IH]; intros cur types kws attrs u rem; cbn [u_loop].
  - intros H. injection H as _ <-. apply suffix_refl.
  - destruct (length t =? 2)%nat.
    { destruct (parse_key t); cbn [bind]; try discriminate. intros H. apply suffix_cons. exact (IH _ _ _ _ _ _ H). }
    destruct (is_some cur && is_type t).
    { destruct (parse_type t) as [[v|]| | |]; cbn [bind]; try discriminate; intros H; apply suffix_cons; exact (IH _ _ _ _ _ _ H). }
    destruct (is_attribute t).
    { destruct (parse_attribute t); cbn [bind]; try discriminate. intros H. apply suffix_cons. exact (IH _ _ _ _ _ _ H). }
    intros H. injection H as _ <-. apply suffix_refl.
Qed.

Lemma t_loop_suffix fuel : forall cur vals tf tl toks t rem,
  t_loop fuel cur vals tf tl toks = Ok (t, rem) -> suffix rem toks.
Proof.
  induction fuel as [|f IH]; intros cur vals tf tl toks t rem; cbn [t_loop]; [discriminate|].
  destruct toks as [|tok rest]; [intros H; injection H as _ <-; apply suffix_refl|].
  destruct (tkey_shape tok).
  { destruct (parse_tkey tok); cbn [bind]; try discriminate. intros H. apply suffix_cons. exact (IH _ _ _ _ _ _ _ H). }
  destruct (length tok =? 1)%nat; [intros H; injection H as _ <-; apply suffix_refl|].
  destruct (is_some cur).
  { destruct (parse_tvalue tok) as [[v|]| | |]; cbn [bind]; try discriminate; intros H; apply suffix_cons; exact (IH _ _ _ _ _ _ _ H). }
  destruct (is_none tl && is_language_subtag tok).
  { destruct (langid_from_iter (tok :: rest) true) as [[v rem']| | |] eqn:El; try discriminate.
    intros H. eapply suffix_trans; [exact (IH _ _ _ _ _ _ _ H)|exact (langid_from_iter_suffix _ _ _ _ El)]. }
  intros H. injection H as _ <-. apply suffix_refl.
Qed.

(* ---------------------------------------------------------------- fuel never matters once it suffices *)
Lemma t_loop_enough f : forall f' cur vals tf tl toks, (length toks < f)%nat -> (length toks < f')%nat ->
  t_loop f cur vals tf tl toks = t_loop f' cur vals tf tl toks.
Proof.
  induction f as [|f IH]; intros f' cur vals tf tl toks Hf Hf'; [lia|]. destruct f' as [|f']; [lia|].
  cbn [t_loop]. destruct toks as [|tok rest]; [reflexivity|]. cbn [length] in Hf, Hf'.
  destruct (tkey_shape tok).
  { destruct (parse_tkey tok); cbn [bind]; try reflexivity. apply IH; lia. }
  destruct (length tok =? 1)%nat; [reflexivity|].
  destruct (is_some cur).
  { destruct (parse_tvalue tok) as [[v|]| | |]; cbn [bind]; try reflexivity; apply IH; lia. }
  destruct (is_none tl && is_language_subtag tok); [|reflexivity].
  destruct (langid_from_iter (tok :: rest) true) as [[v rem']| | |] eqn:El; try reflexivity.
  pose proof (proj2 (langid_from_iter_total (tok :: rest) true) _ _ El ltac:(discriminate)) as L. cbn [length] in L.
  apply IH; lia.
Qed.

Lemma dispatch_enough f : forall f' su st acc toks, (length toks < f)%nat -> (length toks < f')%nat ->
  dispatch f su st acc toks = dispatch f' su st acc toks.
Proof.
  induction f as [|f IH]; intros f' su st acc toks Hf Hf'; [lia|]. destruct f' as [|f']; [lia|].
  cbn [dispatch]. destruct toks as [|t rest]; [reflexivity|]. cbn [length] in Hf, Hf'.
  destruct (1 <? length t)%nat; [reflexivity|].
  destruct t as [|b r]; [apply IH; lia|].
  destruct (ext_type_from_byte b) as [[| | |c]| | |]; try reflexivity.
  - destruct su; [reflexivity|]. destruct (u_parse rest) as [[u rem]| | |] eqn:E; cbn [bind]; try reflexivity.
    cbn [fst snd]. pose proof (suffix_length _ _ (u_loop_suffix _ _ _ _ _ _ _ E)). apply IH; lia.
  - destruct st; [reflexivity|]. destruct (t_parse rest) as [[u rem]| | |] eqn:E; cbn [bind]; try reflexivity.
    cbn [fst snd]. pose proof (suffix_length _ _ (t_loop_suffix _ _ _ _ _ _ _ _ E)). apply IH; lia.
Qed.

(* the dispatcher with exactly the fuel `ext_from_iter` gives it *)
Definition dstate := (bool * bool * extmap)%type.
Definition disp (s : dstate) (toks : list bytes) : res extmap :=
  let '(su, st, acc) := s in dispatch (S (length toks)) su st acc toks.
Arguments disp : simpl never.
Lemma dispatch_is_disp f su st acc toks : (length toks < f)%nat -> dispatch f su st acc toks = disp (su, st, acc) toks.
Proof. intros H. unfold disp. apply dispatch_enough; lia. Qed.
Lemma ext_from_iter_is_disp toks : ext_from_iter toks = disp (false, false, extmap_default) toks.
Proof. reflexivity. Qed.

(* ---------------------------------------------------------------- prefix closure, fuel-free *)
Lemma u_parse_app body R : ext_stop R ->
  u_parse (body ++ R) = match u_parse body with
                        | Ok (u, rem) => Ok (u, rem ++ R)
                        | Err e => Err e | Panic n => Panic n | OutOfFuel => OutOfFuel
                        end.
Proof. intros HR. unfold u_parse. apply u_loop_app. exact HR. Qed.
Lemma t_parse_app body R : ext_stop R ->
  t_parse (body ++ R) = match t_parse body with
                        | Ok (t, rem) => Ok (t, rem ++ R)
                        | Err e => Err e | Panic n => Panic n | OutOfFuel => OutOfFuel
                        end.
Proof.
  intros HR. unfold t_parse. rewrite (t_loop_app (S (length (body ++ R))) body None [] [] None R HR (Nat.lt_succ_diag_r _)).
  rewrite (t_loop_enough (S (length (body ++ R))) (S (length body)) None [] [] None body); [reflexivity| |lia].
  rewrite app_length. lia.
Qed.

Lemma u_parse_ok_or_err toks : (exists u rem, u_parse toks = Ok (u, rem) /\ suffix rem toks) \/ (exists e, u_parse toks = Err e).
Proof.
  destruct (u_loop_total None [] [] [] toks) as [[[[u rem] E]|[e E]] _]; [left|right; eauto].
  exists u, rem. split; [exact E|exact (u_loop_suffix _ _ _ _ _ _ _ E)].
Qed.
Lemma t_parse_ok_or_err toks : (exists t rem, t_parse toks = Ok (t, rem) /\ suffix rem toks) \/ (exists e, t_parse toks = Err e).
Proof.
  destruct (t_parse_total toks) as [[[[t rem] E]|[e E]] _]; [left|right; eauto].
  exists t, rem. split; [exact E|exact (t_loop_suffix _ _ _ _ _ _ _ _ E)].
Qed.

(* ---------------------------------------------------------------- one dispatcher step *)
Definition set_u (acc : extmap) (u : uext) : extmap := mkE u (e_transform acc) (e_private acc).
Definition set_t (acc : extmap) (t : text) : extmap := mkE (e_unicode acc) t (e_private acc).

Lemma dispatch_S f su st acc toks :
  dispatch (S f) su st acc toks =
  match toks with
  | [] => Ok acc
  | t :: rest =>
    if (1 <? length t)%nat then Err InvalidExtension
    else match t with
         | [] => dispatch f su st acc rest
         | b :: _ =>
           match ext_type_from_byte b with
           | Ok EUnicode =>
             if su then Err InvalidExtension
             else bind (u_parse rest) (fun ur => dispatch f true st (mkE (fst ur) (e_transform acc) (e_private acc)) (snd ur))
           | Ok ETransform =>
             if st then Err InvalidExtension
             else bind (t_parse rest) (fun tr => dispatch f su true (mkE (e_unicode acc) (fst tr) (e_private acc)) (snd tr))
           | Ok EPrivate => bind (x_parse rest) (fun x => Ok (mkE (e_unicode acc) (e_transform acc) x))
           | _ => Err InvalidExtension
           end
         end
  end.
Proof. reflexivity. Qed.

Lemma disp_nil s : disp s [] = Ok (snd s).
Proof. destruct s as [[su st] acc]. reflexivity. Qed.
Lemma disp_long s t rest : (1 <? length t)%nat = true -> disp s (t :: rest) = Err InvalidExtension.
Proof. destruct s as [[su st] acc]. unfold disp. rewrite dispatch_S. intros ->. reflexivity. Qed.
Lemma disp_empty s rest : disp s ([] :: rest) = disp s rest.
Proof. destruct s as [[su st] acc]. unfold disp at 1. rewrite dispatch_S. cbn [length Nat.ltb Nat.leb]. apply dispatch_is_disp. lia. Qed.

Lemma single_shape t : is_single t = true -> exists b, t = [b].
Proof. unfold is_single. destruct t as [|b [|c r]]; try discriminate. eauto. Qed.

Lemma disp_u su st acc s rest : single_is 117 s = true ->
  disp (su, st, acc) (s :: rest) =
  if su then Err InvalidExtension
  else match u_parse rest with
       | Ok (u, rem) => disp (true, st, set_u acc u) rem
       | Err e => Err e | Panic n => Panic n | OutOfFuel => OutOfFuel
       end.
Proof.
  intros Hs. destruct s as [|b [|c r]]; try discriminate. cbn [single_is] in Hs.
  unfold disp at 1. rewrite dispatch_S. cbn [length Nat.ltb Nat.leb]. rewrite ext_type_single, Hs.
  destruct su; [reflexivity|]. destruct (u_parse rest) as [[u rem]| | |] eqn:E; cbn [bind fst snd]; try reflexivity.
  apply dispatch_is_disp. pose proof (suffix_length _ _ (u_loop_suffix _ _ _ _ _ _ _ E)). lia.
Qed.
Lemma disp_t su st acc s rest : single_is 116 s = true ->
  disp (su, st, acc) (s :: rest) =
  if st then Err InvalidExtension
  else match t_parse rest with
       | Ok (t, rem) => disp (su, true, set_t acc t) rem
       | Err e => Err e | Panic n => Panic n | OutOfFuel => OutOfFuel
       end.
Proof.
  intros Hs. destruct s as [|b [|c r]]; try discriminate. cbn [single_is] in Hs.
  unfold disp at 1. rewrite dispatch_S. cbn [length Nat.ltb Nat.leb]. rewrite ext_type_single.
  assert (H117 : (to_lower b =? 117) = false) by lia. rewrite H117, Hs.
  destruct st; [reflexivity|]. destruct (t_parse rest) as [[u rem]| | |] eqn:E; cbn [bind fst snd]; try reflexivity.
  apply dispatch_is_disp. pose proof (suffix_length _ _ (t_loop_suffix _ _ _ _ _ _ _ _ E)). lia.
Qed.
Lemma disp_other s t rest : is_single t = true -> single_is 117 t = false -> single_is 116 t = false -> single_is 120 t = false ->
  disp s (t :: rest) = Err InvalidExtension.
Proof.
  intros Hs H1 H2 H3. destruct (single_shape _ Hs) as [b ->]. cbn [single_is] in *.
  destruct s as [[su st] acc]. unfold disp. rewrite dispatch_S. cbn [length Nat.ltb Nat.leb]. rewrite ext_type_single, H1, H2, H3.
  destruct (is_alnum (to_lower b)); reflexivity.
Qed.

(* a block without one-character tokens at dispatcher level: only empty tokens are tolerated *)
Lemma disp_lead lead s R : no_single lead = true ->
  disp s (lead ++ R) = if forallb is_empty_tok lead then disp s R else Err InvalidExtension.
Proof.
  induction lead as [|t lead IH]; intros Hn; cbn [app forallb]; [reflexivity|].
  pose proof (no_single_tail _ _ Hn) as Hn'. cbn [no_single forallb] in Hn. apply andb_true_iff in Hn as [Ht _].
  unfold is_single in Ht. apply negb_true_iff in Ht.
  destruct t as [|b r]; cbn [is_empty_tok andb].
  - rewrite disp_empty. exact (IH Hn').
  - apply disp_long. cbn [length] in *. lia.
Qed.

(* ---------------------------------------------------------------- the context before the permuted part *)
Definition no_x (toks : list bytes) : bool := forallb (fun t => negb (single_is 120 t)) toks.

(* a prefix without private-use singleton either fails on its own or leaves the dispatcher in a state
   that does not depend on what follows (as long as a one-character token follows) *)
Lemma disp_prefix n : forall pre s, (length pre <= n)%nat -> no_x pre = true ->
  (exists e, forall R, ext_stop R -> disp s (pre ++ R) = Err e) \/
  (exists s', forall R, ext_stop R -> disp s (pre ++ R) = disp s' R).
Proof.
  induction n as [|n IH]; intros pre s Hl Hx.
  - destruct pre; [|cbn [length] in Hl; lia]. right. exists s. reflexivity.
  - destruct pre as [|t r]; [right; exists s; reflexivity|]. cbn [length] in Hl.
    pose proof Hx as Hx0. cbn [no_x forallb] in Hx. apply andb_true_iff in Hx as [Hxt Hxr]. apply negb_true_iff in Hxt.
    destruct (1 <? length t)%nat eqn:L1.
    { left. exists InvalidExtension. intros R _. apply disp_long. exact L1. }
    destruct t as [|b t'].
    { destruct (IH r s ltac:(lia) Hxr) as [[e He]|[s' Hs']]; [left; exists e|right; exists s']; intros R HR; cbn [app]; rewrite disp_empty; auto. }
    assert (t' = []) as -> by (destruct t'; [reflexivity|cbn [length] in L1; lia]).
    destruct s as [[su st] acc].
    destruct (single_is 117 [b]) eqn:Hu.
    { destruct su; [left; exists InvalidExtension; intros R _; cbn [app]; rewrite (disp_u _ _ _ _ _ Hu); reflexivity|].
      destruct (u_parse_ok_or_err r) as [(u & rem & E & Sf)|[e E]].
      - destruct (IH rem (true, st, set_u acc u) ltac:(pose proof (suffix_length _ _ Sf); lia) (suffix_forallb _ _ _ Sf Hxr)) as [[e He]|[s' Hs']];
          [left; exists e|right; exists s']; intros R HR; cbn [app]; rewrite (disp_u _ _ _ _ _ Hu), (u_parse_app r R HR), E; auto.
      - left. exists e. intros R HR. cbn [app]. rewrite (disp_u _ _ _ _ _ Hu), (u_parse_app r R HR), E. reflexivity. }
    destruct (single_is 116 [b]) eqn:Ht.
    { destruct st; [left; exists InvalidExtension; intros R _; cbn [app]; rewrite (disp_t _ _ _ _ _ Ht); reflexivity|].
      destruct (t_parse_ok_or_err r) as [(u & rem & E & Sf)|[e E]].
      - destruct (IH rem (su, true, set_t acc u) ltac:(pose proof (suffix_length _ _ Sf); lia) (suffix_forallb _ _ _ Sf Hxr)) as [[e He]|[s' Hs']];
          [left; exists e|right; exists s']; intros R HR; cbn [app]; rewrite (disp_t _ _ _ _ _ Ht), (t_parse_app r R HR), E; auto.
      - left. exists e. intros R HR. cbn [app]. rewrite (disp_t _ _ _ _ _ Ht), (t_parse_app r R HR), E. reflexivity. }
    left. exists InvalidExtension. intros R _. cbn [app]. apply disp_other; [reflexivity|assumption..].
Qed.

(* the whole Locale parser on a token list *)
Definition locale_tokens (toks : list bytes) : res locale :=
  match langid_from_iter toks true with
  | Ok (id, rem) => bind (ext_from_iter rem) (fun e => Ok (mkLoc id e))
  | Err _ => Err InvalidLanguage
  | Panic n => Panic n
  | OutOfFuel => OutOfFuel
  end.
Lemma locale_from_bytes_tokens s : locale_from_bytes s = locale_tokens (split s).
Proof. reflexivity. Qed.

Lemma locale_prefix pre : pre <> [] -> no_x pre = true ->
  (exists e, forall R, ext_stop R -> locale_tokens (pre ++ R) = Err e) \/
  (exists id s', forall R, ext_stop R -> locale_tokens (pre ++ R) = bind (disp s' R) (fun e => Ok (mkLoc id e))).
Proof.
  intros Hne Hx.
  destruct (langid_from_iter_total pre true) as [[[[id rem] E]|[e E]] _].
  - pose proof (langid_from_iter_suffix _ _ _ _ E) as Sf.
    destruct (disp_prefix (length rem) rem (false, false, extmap_default) (le_n _) (suffix_forallb _ _ _ Sf Hx)) as [[e He]|[s' Hs']].
    + left. exists e. intros R HR. unfold locale_tokens. rewrite (langid_from_iter_app pre R (ext_stop_li_stop R HR) Hne), E.
      rewrite ext_from_iter_is_disp, (He R HR). reflexivity.
    + right. exists id, s'. intros R HR. unfold locale_tokens. rewrite (langid_from_iter_app pre R (ext_stop_li_stop R HR) Hne), E.
      rewrite ext_from_iter_is_disp, (Hs' R HR). reflexivity.
  - left. exists InvalidLanguage. intros R HR. unfold locale_tokens. rewrite (langid_from_iter_app pre R (ext_stop_li_stop R HR) Hne), E. reflexivity.
Qed.

(* ---------------------------------------------------------------- outcomes *)
(* "either both fail to parse or parse to equal values" *)
Definition same_outcome {A} (r1 r2 : res A) : Prop :=
  match r1, r2 with
  | Ok a, Ok b => a = b
  | Err _, Err _ => True
  | _, _ => False
  end.
Lemma same_outcome_refl {A} (r : res A) : total r -> same_outcome r r.
Proof. intros [[a ->]|[e ->]]; cbn; auto. Qed.
Lemma same_outcome_bind {A B} (r1 r2 : res A) (f : A -> B) :
  same_outcome r1 r2 -> same_outcome (bind r1 (fun a => Ok (f a))) (bind r2 (fun a => Ok (f a))).
Proof. destruct r1, r2; cbn; try tauto. intros ->. reflexivity. Qed.
Lemma disp_total s toks : total (disp s toks).
Proof. destruct s as [[su st] acc]. unfold disp. apply dispatch_total. lia. Qed.

Lemma single_is_len c s : single_is c s = true -> length s = 1%nat.
Proof. destruct s as [|b [|d r]]; try discriminate. reflexivity. Qed.
Lemma single_is_single c s : single_is c s = true -> is_single s = true.
Proof. intros H. unfold is_single. rewrite (single_is_len _ _ H). reflexivity. Qed.
Lemma ext_stop_single c s R : single_is c s = true -> ext_stop (s :: R).
Proof. intros H. cbn. exact (single_is_len _ _ H). Qed.
Lemma no_single_app a b : no_single (a ++ b) = no_single a && no_single b.
Proof. unfold no_single. apply forallb_app. Qed.
Lemma no_single_suffix rem toks : suffix rem toks -> no_single toks = true -> no_single rem = true.
Proof. unfold no_single. apply suffix_forallb. Qed.

(* ---------------------------------------------------------------- whole segments *)
Definition useg (U : list bytes) : res uext :=
  match u_parse U with
  | Ok (u, rem) => if forallb is_empty_tok rem then Ok u else Err InvalidExtension
  | Err e => Err e | Panic n => Panic n | OutOfFuel => OutOfFuel
  end.
Definition tseg (T : list bytes) : res text :=
  match t_parse T with
  | Ok (t, rem) => if forallb is_empty_tok rem then Ok t else Err InvalidExtension
  | Err e => Err e | Panic n => Panic n | OutOfFuel => OutOfFuel
  end.
Lemma useg_total U : total (useg U).
Proof. unfold useg. destruct (u_parse_ok_or_err U) as [(u & rem & -> & _)|[e ->]]; [destruct (forallb _ rem)|]; auto with tot. Qed.
Lemma tseg_total T : total (tseg T).
Proof. unfold tseg. destruct (t_parse_ok_or_err T) as [(u & rem & -> & _)|[e ->]]; [destruct (forallb _ rem)|]; auto with tot. Qed.

Lemma disp_useg su st acc s U R : single_is 117 s = true -> no_single U = true -> ext_stop R ->
  disp (su, st, acc) (s :: U ++ R) =
  if su then Err InvalidExtension else bind (useg U) (fun u => disp (true, st, set_u acc u) R).
Proof.
  intros Hs Hn HR. rewrite (disp_u _ _ _ _ _ Hs), (u_parse_app U R HR). destruct su; [reflexivity|]. unfold useg.
  destruct (u_parse_ok_or_err U) as [(u & rem & -> & Sf)|[e ->]]; [|reflexivity].
  rewrite (disp_lead rem _ R (no_single_suffix _ _ Sf Hn)). destruct (forallb is_empty_tok rem); reflexivity.
Qed.
Lemma disp_tseg su st acc s T R : single_is 116 s = true -> no_single T = true -> ext_stop R ->
  disp (su, st, acc) (s :: T ++ R) =
  if st then Err InvalidExtension else bind (tseg T) (fun t => disp (su, true, set_t acc t) R).
Proof.
  intros Hs Hn HR. rewrite (disp_t _ _ _ _ _ Hs), (t_parse_app T R HR). destruct st; [reflexivity|]. unfold tseg.
  destruct (t_parse_ok_or_err T) as [(u & rem & -> & Sf)|[e ->]]; [|reflexivity].
  rewrite (disp_lead rem _ R (no_single_suffix _ _ Sf Hn)). destruct (forallb is_empty_tok rem); reflexivity.
Qed.

(* ---------------------------------------------------------------- -u- before -t-, or after *)
Lemma disp_ut_swap s0 su U st T R :
  single_is 117 su = true -> single_is 116 st = true -> no_single U = true -> no_single T = true -> ext_stop R ->
  same_outcome (disp s0 (su :: U ++ st :: T ++ R)) (disp s0 (st :: T ++ su :: U ++ R)).
Proof.
  intros Hu Ht HnU HnT HR. destruct s0 as [[fu ft] acc].
  rewrite (disp_useg fu ft acc su U (st :: T ++ R) Hu HnU (ext_stop_single _ _ _ Ht)).
  rewrite (disp_tseg fu ft acc st T (su :: U ++ R) Ht HnT (ext_stop_single _ _ _ Hu)).
  destruct (useg_total U) as [[u Eu]|[eu Eu]]; destruct (tseg_total T) as [[t Et]|[et Et]]; rewrite Eu, Et; cbn [bind].
  - rewrite (disp_tseg _ _ _ st T R Ht HnT HR), (disp_useg _ _ _ su U R Hu HnU HR), Eu, Et. cbn [bind].
    destruct fu, ft; cbn; auto. apply same_outcome_refl. apply disp_total.
  - rewrite (disp_tseg _ _ _ st T R Ht HnT HR), Et. cbn [bind]. destruct fu, ft; cbn; auto.
  - rewrite (disp_useg _ _ _ su U R Hu HnU HR), Eu. cbn [bind]. destruct fu, ft; cbn; auto.
  - destruct fu, ft; cbn; auto.
Qed.

Theorem locale_ut_order s s' pre su U st T R :
  split s = pre ++ su :: U ++ st :: T ++ R -> split s' = pre ++ st :: T ++ su :: U ++ R ->
  pre <> [] -> no_x pre = true ->
  single_is 117 su = true -> single_is 116 st = true -> no_single U = true -> no_single T = true -> ext_stop R ->
  same_outcome (locale_from_bytes s) (locale_from_bytes s').
Proof.
  intros E E' Hne Hx Hu Ht HnU HnT HR. rewrite !locale_from_bytes_tokens, E, E'.
  destruct (locale_prefix pre Hne Hx) as [[e He]|(id & s0 & Hs)].
  - rewrite (He _ (ext_stop_single _ _ _ Hu)), (He _ (ext_stop_single _ _ _ Ht)). exact I.
  - rewrite (Hs _ (ext_stop_single _ _ _ Hu)), (Hs _ (ext_stop_single _ _ _ Ht)).
    apply same_outcome_bind. apply disp_ut_swap; assumption.
Qed.

(* the same without a language identifier in front (ExtensionsMap::from_bytes) *)
Theorem extmap_ut_order s s' pre su U st T R :
  split s = pre ++ su :: U ++ st :: T ++ R -> split s' = pre ++ st :: T ++ su :: U ++ R ->
  no_x pre = true ->
  single_is 117 su = true -> single_is 116 st = true -> no_single U = true -> no_single T = true -> ext_stop R ->
  same_outcome (extmap_from_bytes s) (extmap_from_bytes s').
Proof.
  intros E E' Hx Hu Ht HnU HnT HR. unfold extmap_from_bytes. rewrite E, E', !ext_from_iter_is_disp.
  destruct (disp_prefix (length pre) pre (false, false, extmap_default) (le_n _) Hx) as [[e He]|[s0 Hs]].
  - rewrite (He _ (ext_stop_single _ _ _ Hu)), (He _ (ext_stop_single _ _ _ Ht)). exact I.
  - rewrite (Hs _ (ext_stop_single _ _ _ Hu)), (Hs _ (ext_stop_single _ _ _ Ht)). apply disp_ut_swap; assumption.
Qed.

(* ---------------------------------------------------------------- congruence: only the segment's own reading matters *)
Theorem locale_ubody_cong s s' pre su B B' R :
  split s = pre ++ su :: B ++ R -> split s' = pre ++ su :: B' ++ R ->
  pre <> [] -> no_x pre = true -> single_is 117 su = true -> no_single B = true -> no_single B' = true -> ext_stop R ->
  useg B = useg B' -> locale_from_bytes s = locale_from_bytes s'.
Proof.
  intros E E' Hne Hx Hu Hn Hn' HR Hseg. rewrite !locale_from_bytes_tokens, E, E'.
  destruct (locale_prefix pre Hne Hx) as [[e He]|(id & [[fu ft] acc] & Hs)].
  - rewrite !(He _ (ext_stop_single _ _ _ Hu)). reflexivity.
  - rewrite !(Hs _ (ext_stop_single _ _ _ Hu)). rewrite (disp_useg _ _ _ su B R Hu Hn HR), (disp_useg _ _ _ su B' R Hu Hn' HR), Hseg. reflexivity.
Qed.
Theorem locale_tbody_cong s s' pre st B B' R :
  split s = pre ++ st :: B ++ R -> split s' = pre ++ st :: B' ++ R ->
  pre <> [] -> no_x pre = true -> single_is 116 st = true -> no_single B = true -> no_single B' = true -> ext_stop R ->
  tseg B = tseg B' -> locale_from_bytes s = locale_from_bytes s'.
Proof.
  intros E E' Hne Hx Hu Hn Hn' HR Hseg. rewrite !locale_from_bytes_tokens, E, E'.
  destruct (locale_prefix pre Hne Hx) as [[e He]|(id & [[fu ft] acc] & Hs)].
  - rewrite !(He _ (ext_stop_single _ _ _ Hu)). reflexivity.
  - rewrite !(Hs _ (ext_stop_single _ _ _ Hu)). rewrite (disp_tseg _ _ _ st B R Hu Hn HR), (disp_tseg _ _ _ st B' R Hu Hn' HR), Hseg. reflexivity.
Qed.

(* ---------------------------------------------------------------- -u- keywords with distinct keys *)
Lemma kinsert_comm k1 v1 k2 v2 m : ksorted m = true -> k1 <> k2 ->
  kinsert k1 v1 (kinsert k2 v2 m) = kinsert k2 v2 (kinsert k1 v1 m).
Proof.
  intros Hm Hk. apply ksorted_unique; [apply ksorted_kinsert, ksorted_kinsert, Hm|apply ksorted_kinsert, ksorted_kinsert, Hm|].
  intros x. rewrite (kinsert_In_iff k1 v1 _ x (ksorted_kinsert _ _ _ Hm)), (kinsert_In_iff k2 v2 m x Hm).
  rewrite (kinsert_In_iff k2 v2 _ x (ksorted_kinsert _ _ _ Hm)), (kinsert_In_iff k1 v1 m x Hm).
  split.
  - intros [->|[[->|[Hi H2]] H1]].
    + right. split; [left; reflexivity|exact Hk].
    + left. reflexivity.
    + right. split; [right; split; assumption|assumption].
  - intros [->|[[->|[Hi H2]] H1]].
    + right. split; [left; reflexivity|cbn [fst]; congruence].
    + left. reflexivity.
    + right. split; [right; split; assumption|assumption].
Qed.
Lemma ksorted_flush cur vals m : ksorted m = true -> ksorted (flush cur vals m) = true.
Proof. destruct cur; cbn [flush]; [apply ksorted_kinsert|auto]. Qed.

Lemma drop_true_cons x l : drop_true (x :: l) = if beqb x true_bytes then drop_true l else x :: drop_true l.
Proof. unfold drop_true. cbn [filter]. change [116; 114; 117; 101] with true_bytes. destruct (beqb x true_bytes); reflexivity. Qed.

Lemma u_loop_values V : forallb utype_tok V = true -> forall k types kws attrs rest,
  u_loop (Some k) types kws attrs (V ++ rest) = u_loop (Some k) (types ++ drop_true (map lower V)) kws attrs rest.
Proof.
  induction V as [|v V IH]; intros HV k types kws attrs rest; cbn [app map].
  - unfold drop_true. cbn [filter]. rewrite app_nil_r. reflexivity.
  - cbn [forallb] in HV. apply andb_true_iff in HV as [Hv HV].
    cbn [u_loop]. rewrite (utype_len v Hv). cbn [is_some andb]. rewrite is_type_tok, Hv, parse_type_spec, Hv. cbn [bind].
    rewrite drop_true_cons. unfold drop_true_opt. destruct (beqb (lower v) true_bytes).
    + apply IH. exact HV.
    + rewrite (IH HV), <- app_assoc. reflexivity.
Qed.
Lemma u_loop_group k V : ukey_tok k = true -> forallb utype_tok V = true -> forall cur types kws attrs rest,
  u_loop cur types kws attrs (k :: V ++ rest) =
  u_loop (Some (lower k)) (drop_true (map lower V)) (flush cur types kws) attrs rest.
Proof.
  intros Hk HV cur types kws attrs rest. cbn [u_loop]. rewrite (ukey_len k Hk), parse_key_spec, Hk. cbn [bind].
  rewrite (u_loop_values V HV). reflexivity.
Qed.

Definition head_not (p : bytes -> bool) (rest : list bytes) : Prop :=
  match rest with [] => True | t :: _ => p t = false end.

Lemma u_loop_same_flush c1 t1 m1 c2 t2 m2 attrs rest : head_not utype_tok rest ->
  flush c1 t1 m1 = flush c2 t2 m2 -> u_loop c1 t1 m1 attrs rest = u_loop c2 t2 m2 attrs rest.
Proof.
  intros Hh Hf. destruct rest as [|t r]; cbn [u_loop]; [rewrite Hf; reflexivity|]. cbn in Hh.
  destruct (length t =? 2)%nat; [rewrite Hf; reflexivity|].
  unfold is_attribute. rewrite is_type_tok, Hh, !andb_false_r, Hf. reflexivity.
Qed.

Lemma u_swap k1 V1 k2 V2 rest cur types kws attrs :
  ksorted kws = true -> ukey_tok k1 = true -> ukey_tok k2 = true -> lower k1 <> lower k2 ->
  forallb utype_tok V1 = true -> forallb utype_tok V2 = true -> head_not utype_tok rest ->
  u_loop cur types kws attrs (k1 :: V1 ++ k2 :: V2 ++ rest) = u_loop cur types kws attrs (k2 :: V2 ++ k1 :: V1 ++ rest).
Proof.
  intros Hs H1 H2 Hne HV1 HV2 Hh.
  rewrite (u_loop_group k1 V1 H1 HV1), (u_loop_group k2 V2 H2 HV2), (u_loop_group k2 V2 H2 HV2), (u_loop_group k1 V1 H1 HV1).
  apply u_loop_same_flush; [exact Hh|]. cbn [flush]. apply kinsert_comm; [apply ksorted_flush; exact Hs|congruence].
Qed.

(* whatever precedes the two keywords inside the body: it fails, stops early, or leaves a loop state *)
Lemma u_loop_prefix P : forall cur types kws attrs, ksorted kws = true ->
  (exists e, forall Z, u_loop cur types kws attrs (P ++ Z) = Err e) \/
  (exists u rem, rem <> [] /\ forall Z, u_loop cur types kws attrs (P ++ Z) = Ok (u, rem ++ Z)) \/
  (exists cur' types' kws' attrs', ksorted kws' = true /\
     forall Z, u_loop cur types kws attrs (P ++ Z) = u_loop cur' types' kws' attrs' Z).
Proof.
  induction P as [|t P IH]; intros cur types kws attrs Hs.
  - right. right. exists cur, types, kws, attrs. split; [exact Hs|reflexivity].
  - cbn [app u_loop]. destruct (length t =? 2)%nat.
    { rewrite parse_key_spec. destruct (ukey_tok t); cbn [bind]; [|left; exists InvalidSubtag; reflexivity].
      exact (IH _ _ _ _ (ksorted_flush _ _ _ Hs)). }
    destruct (is_some cur && is_type t).
    { rewrite parse_type_spec. destruct (utype_tok t); cbn [bind]; [|left; exists InvalidSubtag; reflexivity].
      destruct (drop_true_opt (lower t)); exact (IH _ _ _ _ Hs). }
    destruct (is_attribute t).
    { rewrite parse_attribute_spec. destruct (attr_tok t); cbn [bind]; [|left; exists InvalidSubtag; reflexivity].
      exact (IH _ _ _ _ Hs). }
    right. left. exists (mkU (flush cur types kws) (dedup (sort attrs))), (t :: P). split; [discriminate|reflexivity].
Qed.

Lemma ukey_not_empty k : ukey_tok k = true -> is_empty_tok k = false.
Proof. destruct k; [discriminate|reflexivity]. Qed.
Lemma ukey_not_single k : ukey_tok k = true -> negb (is_single k) = true.
Proof. intros H. unfold is_single. pose proof (ukey_len k H). apply negb_true_iff. lia. Qed.
Lemma utype_not_single V : forallb utype_tok V = true -> no_single V = true.
Proof.
  unfold no_single. induction V as [|v V IH]; cbn [forallb]; [reflexivity|]. intros H. apply andb_true_iff in H as [Hv HV].
  rewrite (IH HV), andb_true_r. unfold utype_tok, len_in in Hv. unfold is_single. apply negb_true_iff. lia.
Qed.

Theorem useg_kw_swap P k1 V1 k2 V2 rest :
  ukey_tok k1 = true -> ukey_tok k2 = true -> lower k1 <> lower k2 ->
  forallb utype_tok V1 = true -> forallb utype_tok V2 = true -> head_not utype_tok rest ->
  useg (P ++ k1 :: V1 ++ k2 :: V2 ++ rest) = useg (P ++ k2 :: V2 ++ k1 :: V1 ++ rest).
Proof.
  intros H1 H2 Hne HV1 HV2 Hh. unfold useg, u_parse.
  destruct (u_loop_prefix P None [] [] [] eq_refl) as [[e H]|[(u & rem & Hn & H)|(c & t & k & a & Hk & H)]]; rewrite !H.
  - reflexivity.
  - rewrite !forallb_app. cbn [forallb]. rewrite (ukey_not_empty _ H1), (ukey_not_empty _ H2). cbn [andb]. rewrite !andb_false_r. reflexivity.
  - rewrite (u_swap k1 V1 k2 V2 rest c t k a Hk H1 H2 Hne HV1 HV2 Hh). reflexivity.
Qed.

Theorem locale_ukeywords_order s s' pre su P k1 V1 k2 V2 rest R :
  split s = pre ++ su :: (P ++ k1 :: V1 ++ k2 :: V2 ++ rest) ++ R ->
  split s' = pre ++ su :: (P ++ k2 :: V2 ++ k1 :: V1 ++ rest) ++ R ->
  pre <> [] -> no_x pre = true -> single_is 117 su = true -> no_single P = true -> no_single rest = true -> ext_stop R ->
  ukey_tok k1 = true -> ukey_tok k2 = true -> lower k1 <> lower k2 ->
  forallb utype_tok V1 = true -> forallb utype_tok V2 = true -> head_not utype_tok rest ->
  locale_from_bytes s = locale_from_bytes s'.
Proof.
  intros E E' Hne Hx Hu HnP Hnr HR H1 H2 Hk HV1 HV2 Hh.
  apply (locale_ubody_cong s s' pre su _ _ R E E' Hne Hx Hu); [| |exact HR|apply useg_kw_swap; assumption].
  - rewrite no_single_app. cbn [no_single forallb]. fold (no_single (V1 ++ k2 :: V2 ++ rest)). rewrite no_single_app. cbn [no_single forallb].
    fold (no_single (V2 ++ rest)). rewrite no_single_app, HnP, Hnr, (utype_not_single _ HV1), (utype_not_single _ HV2), (ukey_not_single _ H1), (ukey_not_single _ H2). reflexivity.
  - rewrite no_single_app. cbn [no_single forallb]. fold (no_single (V2 ++ k1 :: V1 ++ rest)). rewrite no_single_app. cbn [no_single forallb].
    fold (no_single (V1 ++ rest)). rewrite no_single_app, HnP, Hnr, (utype_not_single _ HV1), (utype_not_single _ HV2), (ukey_not_single _ H1), (ukey_not_single _ H2). reflexivity.
Qed.

(* ---------------------------------------------------------------- -u- attributes: order and repetition *)
Lemma u_loop_attrs_set toks : forall cur types kws a1 a2, (forall y, In y a1 <-> In y a2) ->
  u_loop cur types kws a1 toks = u_loop cur types kws a2 toks.
Proof.
  induction toks as [|t rest IH]; intros cur types kws a1 a2 H; cbn [u_loop].
  - fold (canon a1). fold (canon a2). rewrite (canon_same_set _ _ H). reflexivity.
  - destruct (length t =? 2)%nat.
    { destruct (parse_key t); cbn [bind]; try reflexivity. apply IH. exact H. }
    destruct (is_some cur && is_type t).
    { destruct (parse_type t) as [[v|]| | |]; cbn [bind]; try reflexivity; apply IH; exact H. }
    destruct (is_attribute t).
    { destruct (parse_attribute t) as [a| | |]; cbn [bind]; try reflexivity. apply IH. intros y. rewrite !in_app_iff, (H y). reflexivity. }
    fold (canon a1). fold (canon a2). rewrite (canon_same_set _ _ H). reflexivity.
Qed.
Lemma u_loop_attr_run A : forallb attr_tok A = true -> forall kws attrs rest,
  u_loop None [] kws attrs (A ++ rest) = u_loop None [] kws (attrs ++ map lower A) rest.
Proof.
  induction A as [|a A IH]; intros HA kws attrs rest; cbn [app map]; [rewrite app_nil_r; reflexivity|].
  cbn [forallb] in HA. apply andb_true_iff in HA as [Ha HA].
  cbn [u_loop is_some andb]. rewrite (utype_len a Ha). unfold is_attribute. rewrite is_type_tok. change (utype_tok a) with (attr_tok a). rewrite Ha.
  rewrite parse_attribute_spec, Ha. cbn [bind]. rewrite (IH HA), <- app_assoc. reflexivity.
Qed.
Theorem useg_attrs A A' rest : forallb attr_tok A = true -> forallb attr_tok A' = true ->
  (forall y, In y (map lower A) <-> In y (map lower A')) -> useg (A ++ rest) = useg (A' ++ rest).
Proof.
  intros HA HA' H. unfold useg, u_parse. rewrite (u_loop_attr_run A HA), (u_loop_attr_run A' HA'). cbn [app].
  rewrite (u_loop_attrs_set rest None [] [] _ _ H). reflexivity.
Qed.
Lemma attr_not_single A : forallb attr_tok A = true -> no_single A = true.
Proof. exact (utype_not_single A). Qed.

Theorem locale_uattrs_order s s' pre su A A' rest R :
  split s = pre ++ su :: (A ++ rest) ++ R -> split s' = pre ++ su :: (A' ++ rest) ++ R ->
  pre <> [] -> no_x pre = true -> single_is 117 su = true -> no_single rest = true -> ext_stop R ->
  forallb attr_tok A = true -> forallb attr_tok A' = true ->
  (forall y, In y (map lower A) <-> In y (map lower A')) ->
  locale_from_bytes s = locale_from_bytes s'.
Proof.
  intros E E' Hne Hx Hu Hnr HR HA HA' H.
  apply (locale_ubody_cong s s' pre su _ _ R E E' Hne Hx Hu); [| |exact HR|apply useg_attrs; assumption].
  - rewrite no_single_app, (attr_not_single _ HA), Hnr. reflexivity.
  - rewrite no_single_app, (attr_not_single _ HA'), Hnr. reflexivity.
Qed.

(* ---------------------------------------------------------------- -t- fields with distinct keys *)
(* the -t- loop with exactly the fuel `t_parse` gives it *)
Definition tl_run (cur : option bytes) (vals : list bytes) (tf : kmap) (tl : option langid) (toks : list bytes) :=
  t_loop (S (length toks)) cur vals tf tl toks.
Lemma t_parse_is_run toks : t_parse toks = tl_run None [] [] None toks.
Proof. reflexivity. Qed.

Lemma t_loop_S f cur vals tf tl toks :
  t_loop (S f) cur vals tf tl toks =
  match toks with
  | [] => Ok (mkT tl (flush cur vals tf), [])
  | t :: rest =>
    if tkey_shape t then bind (parse_tkey t) (fun k => t_loop f (Some k) [] (flush cur vals tf) tl rest)
    else if (length t =? 1)%nat then Ok (mkT tl (flush cur vals tf), toks)
    else if is_some cur then
      bind (parse_tvalue t) (fun tv => match tv with
                                       | Some v => t_loop f cur (vals ++ [v]) tf tl rest
                                       | None => t_loop f cur vals tf tl rest
                                       end)
    else if is_none tl && is_language_subtag t then
      match langid_from_iter toks true with
      | Ok (v, rem) => t_loop f cur vals tf (Some v) rem
      | Err _ => Err InvalidLanguage
      | Panic n => Panic n
      | OutOfFuel => OutOfFuel
      end
    else Ok (mkT tl (flush cur vals tf), toks)
  end.
Proof. reflexivity. Qed.

Lemma tl_run_step cur vals tf tl t rest :
  tl_run cur vals tf tl (t :: rest) =
  if tkey_shape t then bind (parse_tkey t) (fun k => tl_run (Some k) [] (flush cur vals tf) tl rest)
  else if (length t =? 1)%nat then Ok (mkT tl (flush cur vals tf), t :: rest)
  else if is_some cur then
    bind (parse_tvalue t) (fun tv => match tv with
                                     | Some v => tl_run cur (vals ++ [v]) tf tl rest
                                     | None => tl_run cur vals tf tl rest
                                     end)
  else if is_none tl && is_language_subtag t then
    match langid_from_iter (t :: rest) true with
    | Ok (v, rem) => tl_run cur vals tf (Some v) rem
    | Err _ => Err InvalidLanguage
    | Panic n => Panic n
    | OutOfFuel => OutOfFuel
    end
  else Ok (mkT tl (flush cur vals tf), t :: rest).
Proof.
  unfold tl_run at 1. cbn [length]. rewrite t_loop_S.
  destruct (tkey_shape t); [reflexivity|]. destruct (length t =? 1)%nat; [reflexivity|].
  destruct (is_some cur); [reflexivity|]. destruct (is_none tl && is_language_subtag t); [|reflexivity].
  destruct (langid_from_iter (t :: rest) true) as [[v rem]| | |] eqn:El; try reflexivity.
  pose proof (proj2 (langid_from_iter_total (t :: rest) true) _ _ El ltac:(discriminate)) as L. cbn [length] in L.
  unfold tl_run. apply t_loop_enough; lia.
Qed.
Lemma tl_run_nil cur vals tf tl : tl_run cur vals tf tl [] = Ok (mkT tl (flush cur vals tf), []).
Proof. reflexivity. Qed.
Arguments tl_run : simpl never.

Lemma tkey_len2 t : tkey_tok t = true -> (length t =? 1)%nat = false.
Proof. destruct t as [|a [|b [|c r]]]; cbn; try discriminate; reflexivity. Qed.
Lemma tvalue_not_key v : tvalue_tok v = true -> tkey_shape v = false /\ (length v =? 1)%nat = false.
Proof.
  unfold tvalue_tok, len_in. intros H. apply andb_true_iff in H as [_ H]. split; [|lia].
  rewrite tkey_shape_tok. destruct v as [|a [|b [|c r]]]; cbn [tkey_tok length] in *; try reflexivity; lia.
Qed.

Lemma tl_run_values V : forallb tvalue_tok V = true -> forall k vals tf tl rest,
  tl_run (Some k) vals tf tl (V ++ rest) = tl_run (Some k) (vals ++ drop_true (map lower V)) tf tl rest.
Proof.
  induction V as [|v V IH]; intros HV k vals tf tl rest; cbn [app map].
  - unfold drop_true. cbn [filter]. rewrite app_nil_r. reflexivity.
  - cbn [forallb] in HV. apply andb_true_iff in HV as [Hv HV]. destruct (tvalue_not_key v Hv) as [K1 K2].
    rewrite tl_run_step, K1, K2. cbn [is_some]. rewrite parse_tvalue_spec, Hv. cbn [bind].
    rewrite drop_true_cons. unfold drop_true_opt. destruct (beqb (lower v) true_bytes).
    + apply IH. exact HV.
    + rewrite (IH HV), <- app_assoc. reflexivity.
Qed.
Lemma tl_run_group k V : tkey_tok k = true -> forallb tvalue_tok V = true -> forall cur vals tf tl rest,
  tl_run cur vals tf tl (k :: V ++ rest) =
  tl_run (Some (lower k)) (drop_true (map lower V)) (flush cur vals tf) tl rest.
Proof.
  intros Hk HV cur vals tf tl rest. rewrite tl_run_step, tkey_shape_tok, Hk, parse_tkey_spec, Hk. cbn [bind].
  rewrite (tl_run_values V HV). reflexivity.
Qed.

Lemma tl_run_same_flush k1 v1 m1 k2 v2 m2 tl rest : head_not tvalue_tok rest ->
  flush (Some k1) v1 m1 = flush (Some k2) v2 m2 -> tl_run (Some k1) v1 m1 tl rest = tl_run (Some k2) v2 m2 tl rest.
Proof.
  intros Hh Hf. destruct rest as [|t r]; [rewrite !tl_run_nil, Hf; reflexivity|]. cbn in Hh.
  rewrite !tl_run_step. destruct (tkey_shape t); [rewrite Hf; reflexivity|].
  destruct (length t =? 1)%nat; [rewrite Hf; reflexivity|]. cbn [is_some].
  rewrite parse_tvalue_spec, Hh. reflexivity.
Qed.

Lemma t_swap k1 V1 k2 V2 rest cur vals tf tl :
  ksorted tf = true -> tkey_tok k1 = true -> tkey_tok k2 = true -> lower k1 <> lower k2 ->
  forallb tvalue_tok V1 = true -> forallb tvalue_tok V2 = true -> head_not tvalue_tok rest ->
  tl_run cur vals tf tl (k1 :: V1 ++ k2 :: V2 ++ rest) = tl_run cur vals tf tl (k2 :: V2 ++ k1 :: V1 ++ rest).
Proof.
  intros Hs H1 H2 Hne HV1 HV2 Hh.
  rewrite (tl_run_group k1 V1 H1 HV1), (tl_run_group k2 V2 H2 HV2), (tl_run_group k2 V2 H2 HV2), (tl_run_group k1 V1 H1 HV1).
  apply tl_run_same_flush; [exact Hh|]. cbn [flush]. apply kinsert_comm; [apply ksorted_flush; exact Hs|congruence].
Qed.

Lemma tkey_li_stop' k Z : tkey_tok k = true -> li_stop (k :: Z).
Proof.
  intros H. destruct k as [|a [|b [|c r]]]; try discriminate. cbn [tkey_tok] in H. apply andb_true_iff in H as [Ha Hb].
  cbn. unfold script_tok, region_tok, variant_tok, len_in. cbn [length forallb Nat.eqb Nat.leb].
  assert (is_alpha b = false) as -> by (unfold is_alpha, is_upper, is_lower, is_digit, in_range in *; lia).
  rewrite (alpha_not_digit _ Ha). cbn [andb orb]. rewrite !andb_false_r. cbn [andb orb]. repeat split; reflexivity.
Qed.

(* whatever precedes the two fields inside the body (a tlang, other fields, anything) *)
Lemma tl_run_prefix n : forall P cur vals tf tl, (length P <= n)%nat -> ksorted tf = true ->
  (exists e, forall Z, head_not (fun t => negb (tkey_tok t)) Z -> Z <> [] -> tl_run cur vals tf tl (P ++ Z) = Err e) \/
  (exists t rem, rem <> [] /\ forall Z, head_not (fun t => negb (tkey_tok t)) Z -> Z <> [] -> tl_run cur vals tf tl (P ++ Z) = Ok (t, rem ++ Z)) \/
  (exists cur' vals' tf' tl', ksorted tf' = true /\
     forall Z, head_not (fun t => negb (tkey_tok t)) Z -> Z <> [] -> tl_run cur vals tf tl (P ++ Z) = tl_run cur' vals' tf' tl' Z).
Proof.
  induction n as [|n IH]; intros P cur vals tf tl Hl Hs.
  { destruct P; [|cbn [length] in Hl; lia]. right. right. exists cur, vals, tf, tl. split; [exact Hs|reflexivity]. }
  destruct P as [|t P]; [right; right; exists cur, vals, tf, tl; split; [exact Hs|reflexivity]|]. cbn [length] in Hl.
  destruct (tkey_shape t) eqn:K.
  { rewrite tkey_shape_tok in K.
    destruct (IH P (Some (lower t)) [] (flush cur vals tf) tl ltac:(lia) (ksorted_flush _ _ _ Hs)) as [[e H]|[(x & rem & Hn & H)|(c & v & m & l & Hk & H)]].
    - left. exists e. intros Z HZ HZn. cbn [app]. rewrite tl_run_step, tkey_shape_tok, K, parse_tkey_spec, K. cbn [bind]. auto.
    - right. left. exists x, rem. split; [exact Hn|]. intros Z HZ HZn. cbn [app]. rewrite tl_run_step, tkey_shape_tok, K, parse_tkey_spec, K. cbn [bind]. auto.
    - right. right. exists c, v, m, l. split; [exact Hk|]. intros Z HZ HZn. cbn [app]. rewrite tl_run_step, tkey_shape_tok, K, parse_tkey_spec, K. cbn [bind]. auto. }
  destruct (length t =? 1)%nat eqn:L1.
  { right. left. exists (mkT tl (flush cur vals tf)), (t :: P). split; [discriminate|]. intros Z _ _. cbn [app]. rewrite tl_run_step, K, L1. reflexivity. }
  destruct (is_some cur) eqn:Ec.
  { destruct (tvalue_tok t) eqn:Ev.
    - destruct (drop_true_opt (lower t)) as [v|] eqn:Ed.
      + destruct (IH P cur (vals ++ [v]) tf tl ltac:(lia) Hs) as [[e H]|[(x & rem & Hn & H)|(c & v' & m & l & Hk & H)]].
        * left. exists e. intros Z HZ HZn. cbn [app]. rewrite tl_run_step, K, L1, Ec, parse_tvalue_spec, Ev. cbn [bind]. rewrite Ed. auto.
        * right. left. exists x, rem. split; [exact Hn|]. intros Z HZ HZn. cbn [app]. rewrite tl_run_step, K, L1, Ec, parse_tvalue_spec, Ev. cbn [bind]. rewrite Ed. auto.
        * right. right. exists c, v', m, l. split; [exact Hk|]. intros Z HZ HZn. cbn [app]. rewrite tl_run_step, K, L1, Ec, parse_tvalue_spec, Ev. cbn [bind]. rewrite Ed. auto.
      + destruct (IH P cur vals tf tl ltac:(lia) Hs) as [[e H]|[(x & rem & Hn & H)|(c & v' & m & l & Hk & H)]].
        * left. exists e. intros Z HZ HZn. cbn [app]. rewrite tl_run_step, K, L1, Ec, parse_tvalue_spec, Ev. cbn [bind]. rewrite Ed. auto.
        * right. left. exists x, rem. split; [exact Hn|]. intros Z HZ HZn. cbn [app]. rewrite tl_run_step, K, L1, Ec, parse_tvalue_spec, Ev. cbn [bind]. rewrite Ed. auto.
        * right. right. exists c, v', m, l. split; [exact Hk|]. intros Z HZ HZn. cbn [app]. rewrite tl_run_step, K, L1, Ec, parse_tvalue_spec, Ev. cbn [bind]. rewrite Ed. auto.
    - left. exists InvalidSubtag. intros Z _ _. cbn [app]. rewrite tl_run_step, K, L1, Ec, parse_tvalue_spec, Ev. reflexivity. }
  destruct (is_none tl && is_language_subtag t) eqn:El.
  { assert (Happ : forall Z, head_not (fun t => negb (tkey_tok t)) Z -> Z <> [] ->
                   langid_from_iter ((t :: P) ++ Z) true =
                   match langid_from_iter (t :: P) true with
                   | Ok (v, rem) => Ok (v, rem ++ Z) | Err e => Err e | Panic n => Panic n | OutOfFuel => OutOfFuel end).
    { intros Z HZ HZn. apply langid_from_iter_app; [|discriminate]. destruct Z as [|z Z']; [congruence|].
      cbn in HZ. apply negb_false_iff in HZ. apply tkey_li_stop'. exact HZ. }
    destruct (langid_from_iter_total (t :: P) true) as [[[[v rem] E]|[e E]] Hsh].
    - pose proof (Hsh _ _ E ltac:(discriminate)) as Lr. cbn [length] in Lr.
      destruct (IH rem cur vals tf (Some v) ltac:(lia) Hs) as [[e H]|[(x & rem' & Hn & H)|(c & v' & m & l & Hk & H)]].
      + left. exists e. intros Z HZ HZn. cbn [app]. rewrite tl_run_step, K, L1, Ec, El.
        change (t :: P ++ Z) with ((t :: P) ++ Z). rewrite (Happ Z HZ HZn), E. auto.
      + right. left. exists x, rem'. split; [exact Hn|]. intros Z HZ HZn. cbn [app]. rewrite tl_run_step, K, L1, Ec, El.
        change (t :: P ++ Z) with ((t :: P) ++ Z). rewrite (Happ Z HZ HZn), E. auto.
      + right. right. exists c, v', m, l. split; [exact Hk|]. intros Z HZ HZn. cbn [app]. rewrite tl_run_step, K, L1, Ec, El.
        change (t :: P ++ Z) with ((t :: P) ++ Z). rewrite (Happ Z HZ HZn), E. auto.
    - left. exists InvalidLanguage. intros Z HZ HZn. cbn [app]. rewrite tl_run_step, K, L1, Ec, El.
      change (t :: P ++ Z) with ((t :: P) ++ Z). rewrite (Happ Z HZ HZn), E. reflexivity. }
  right. left. exists (mkT tl (flush cur vals tf)), (t :: P). split; [discriminate|]. intros Z _ _. cbn [app]. rewrite tl_run_step, K, L1, Ec, El. reflexivity.
Qed.

Lemma tkey_not_empty k : tkey_tok k = true -> is_empty_tok k = false.
Proof. destruct k; [discriminate|reflexivity]. Qed.
Lemma tkey_not_single k : tkey_tok k = true -> negb (is_single k) = true.
Proof. intros H. unfold is_single. rewrite (tkey_len2 k H). reflexivity. Qed.

Theorem tseg_field_swap P k1 V1 k2 V2 rest :
  tkey_tok k1 = true -> tkey_tok k2 = true -> lower k1 <> lower k2 ->
  forallb tvalue_tok V1 = true -> forallb tvalue_tok V2 = true -> head_not tvalue_tok rest ->
  tseg (P ++ k1 :: V1 ++ k2 :: V2 ++ rest) = tseg (P ++ k2 :: V2 ++ k1 :: V1 ++ rest).
Proof.
  intros H1 H2 Hne HV1 HV2 Hh. unfold tseg.
  rewrite (t_parse_is_run (P ++ k1 :: V1 ++ k2 :: V2 ++ rest)), (t_parse_is_run (P ++ k2 :: V2 ++ k1 :: V1 ++ rest)).
  assert (Z1 : head_not (fun t => negb (tkey_tok t)) (k1 :: V1 ++ k2 :: V2 ++ rest)) by (cbn; rewrite H1; reflexivity).
  assert (Z2 : head_not (fun t => negb (tkey_tok t)) (k2 :: V2 ++ k1 :: V1 ++ rest)) by (cbn; rewrite H2; reflexivity).
  destruct (tl_run_prefix (length P) P None [] [] None (le_n _) eq_refl) as [[e H]|[(u & rem & Hn & H)|(c & t & k & a & Hk & H)]];
    rewrite (H _ Z1 ltac:(discriminate)), (H _ Z2 ltac:(discriminate)).
  - reflexivity.
  - rewrite !forallb_app. cbn [forallb]. rewrite (tkey_not_empty _ H1), (tkey_not_empty _ H2). cbn [andb]. rewrite !andb_false_r. reflexivity.
  - rewrite (t_swap k1 V1 k2 V2 rest c t k a Hk H1 H2 Hne HV1 HV2 Hh). reflexivity.
Qed.

Lemma tvalue_not_single V : forallb tvalue_tok V = true -> no_single V = true.
Proof. exact (utype_not_single V). Qed.

Theorem locale_tfields_order s s' pre st P k1 V1 k2 V2 rest R :
  split s = pre ++ st :: (P ++ k1 :: V1 ++ k2 :: V2 ++ rest) ++ R ->
  split s' = pre ++ st :: (P ++ k2 :: V2 ++ k1 :: V1 ++ rest) ++ R ->
  pre <> [] -> no_x pre = true -> single_is 116 st = true -> no_single P = true -> no_single rest = true -> ext_stop R ->
  tkey_tok k1 = true -> tkey_tok k2 = true -> lower k1 <> lower k2 ->
  forallb tvalue_tok V1 = true -> forallb tvalue_tok V2 = true -> head_not tvalue_tok rest ->
  locale_from_bytes s = locale_from_bytes s'.
Proof.
  intros E E' Hne Hx Hu HnP Hnr HR H1 H2 Hk HV1 HV2 Hh.
  apply (locale_tbody_cong s s' pre st _ _ R E E' Hne Hx Hu); [| |exact HR|apply tseg_field_swap; assumption].
  - rewrite no_single_app. cbn [no_single forallb]. fold (no_single (V1 ++ k2 :: V2 ++ rest)). rewrite no_single_app. cbn [no_single forallb].
    fold (no_single (V2 ++ rest)). rewrite no_single_app, HnP, Hnr, (tvalue_not_single _ HV1), (tvalue_not_single _ HV2), (tkey_not_single _ H1), (tkey_not_single _ H2). reflexivity.
  - rewrite no_single_app. cbn [no_single forallb]. fold (no_single (V2 ++ k1 :: V1 ++ rest)). rewrite no_single_app. cbn [no_single forallb].
    fold (no_single (V1 ++ rest)). rewrite no_single_app, HnP, Hnr, (tvalue_not_single _ HV1), (tvalue_not_single _ HV2), (tkey_not_single _ H1), (tkey_not_single _ H2). reflexivity.
Qed.

(* ---------------------------------------------------------------- variants: order and repetition, whole strings *)
Lemma prefix_of_wf l sc rg V : lang_tok l = true -> opt_holds script_tok sc -> opt_holds region_tok rg -> forallb variant_tok V = true ->
  spec_langid_prefix (l :: opt_tok sc ++ opt_tok rg ++ V) =
  Some (mkLangId (spec_language_value l) (option_map title sc) (option_map norm_region rg) (spec_variants V), []).
Proof.
  intros Hl Hs Hr HV.
  assert (W : spec_langid (l :: opt_tok sc ++ opt_tok rg ++ V) =
              Some (mkLangId (spec_language_value l) (option_map title sc) (option_map norm_region rg) (spec_variants V)))
    by (apply spec_langid_iff; constructor; assumption).
  unfold spec_langid in W. cbv beta iota in W. destruct (spec_langid_prefix (l :: opt_tok sc ++ opt_tok rg ++ V)) as [[v [|r0 rr]]|]; try discriminate.
  injection W as W. rewrite W. reflexivity.
Qed.

Theorem locale_variants_order s s' l sc rg V V' R :
  split s = (l :: opt_tok sc ++ opt_tok rg ++ V) ++ R -> split s' = (l :: opt_tok sc ++ opt_tok rg ++ V') ++ R ->
  lang_tok l = true -> opt_holds script_tok sc -> opt_holds region_tok rg ->
  forallb variant_tok V = true -> forallb variant_tok V' = true ->
  (forall y, In y (map lower V) <-> In y (map lower V')) -> li_stop R ->
  locale_from_bytes s = locale_from_bytes s'.
Proof.
  intros E E' Hl Hs Hr HV HV' Hset HR. unfold locale_from_bytes. rewrite E, E'.
  assert (N1 : l :: opt_tok sc ++ opt_tok rg ++ V <> []) by discriminate.
  assert (N2 : l :: opt_tok sc ++ opt_tok rg ++ V' <> []) by discriminate.
  rewrite (langid_from_iter_app _ R HR N1), (langid_from_iter_app _ R HR N2), !langid_from_iter_spec.
  rewrite (prefix_of_wf l sc rg V Hl Hs Hr HV), (prefix_of_wf l sc rg V' Hl Hs Hr HV'), (spec_variants_same_set _ _ Hset).
  reflexivity.
Qed.
Theorem langid_variants_order s s' l sc rg V V' :
  split s = l :: opt_tok sc ++ opt_tok rg ++ V -> split s' = l :: opt_tok sc ++ opt_tok rg ++ V' ->
  lang_tok l = true -> opt_holds script_tok sc -> opt_holds region_tok rg ->
  forallb variant_tok V = true -> forallb variant_tok V' = true ->
  (forall y, In y (map lower V) <-> In y (map lower V')) ->
  langid_from_bytes s = langid_from_bytes s'.
Proof.
  intros E E' Hl Hs Hr HV HV' Hset. unfold langid_from_bytes. rewrite E, E', !langid_from_iter_spec.
  rewrite (prefix_of_wf l sc rg V Hl Hs Hr HV), (prefix_of_wf l sc rg V' Hl Hs Hr HV'), (spec_variants_same_set _ _ Hset).
  reflexivity.
Qed.
