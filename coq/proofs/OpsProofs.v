(* OpsProofs.v — the mutator state machine (C10): errors leave the value unchanged *)
From UL Require Import Bytes Subtags LangId Ext Likely Ops BytesProofs.
Open Scope N_scope.

Lemma of_res_err {A} s (r : res A) k s' :
  (forall a s'', k a = Some (s'', OutErr) -> s'' = s) ->
  of_res s r k = Some (s', OutErr) -> s' = s.
Proof. intros Hk. destruct r; cbn [of_res]; [apply Hk| | |]; intros H; try (injection H as <-; reflexivity); discriminate. Qed.

Ltac solve_k :=
  let a := fresh "a" in let s'' := fresh "s''" in let H := fresh "H" in
  intros a s'' H;
  repeat match type of H with
         | context [match ?x with _ => _ end] => destruct x
         | context [let (_, _) := ?x in _] => destruct x
         end;
  try discriminate; try (injection H as <-; reflexivity).

(* a call that reports an error leaves the value exactly as it was *)
Theorem step_err_unchanged T s o s' : step T s o = Some (s', OutErr) -> s' = s.
Proof.
  destruct o; cbn [step]; try discriminate;
    try (apply of_res_err; solve_k; fail).
  - (* set_keyword *) apply of_res_err. intros a s'' H. revert H. apply of_res_err. solve_k.
  - (* set_tfield *) apply of_res_err. intros a s'' H. revert H. apply of_res_err. solve_k.
Qed.

(* getters never change the value *)
Theorem getters_pure T s o s' w :
  match o with
  | OHasVariant _ | OKeyword _ | OHasAttribute _ | OTfield _ | OHasTag _ => True
  | _ => False
  end -> step T s o = Some (s', w) -> s' = s.
Proof.
  destruct o; intros G; try destruct G; cbn [step]; unfold of_res;
    repeat match goal with |- context [match ?x with _ => _ end] => destruct x end;
    intros H; try discriminate; injection H as <- _; reflexivity.
Qed.
