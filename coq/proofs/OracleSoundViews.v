(* OracleSoundViews.v — the property-specific VIEWS of the oracle (`spec_for_property`): C04 and C05 read the printed
   string and the re-parse verdict of every step back out of a `loc_hist` transcript, C04 reads the printed string out
   of a `langid` / `li_from_parts` answer.  Proved here: on the model's own answer every view passes, i.e. the text
   surgery (`words`, `split_on`, `hist_steps`, `step_tostring`, `step_reparse`, `last_word`) finds exactly the fields
   the transcript was built from - none of the formatted pieces of an invariant-satisfying value contains the
   separators the views cut at. *)
From UL Require Import Bytes Subtags LangId Ext Grammar LangIdSpec LocaleInv AbstractLocale LocaleSpec Canonical CanonLocale Prefix
                       BytesProofs SubtagProofs SplitProofs LangIdProofs LangIdAlgebra CanonProofs ExtProofs KmapProofs RoundTrip InvProofs
                       LocaleSpecProofs LengthProofs LocaleLength CanonLocaleProofs StringLevel PrefixProofs LocaleOrd LocaleAlgebra Likely Inst Ops
                       TablesData OpsInvProofs RefineProofs PrintZone Oracle OracleSound.
From Coq Require Import String Lia ZifyBool ZifyN.
Open Scope N_scope.
Arguments N.eqb : simpl never.

(* ---------------------------------------------------------------- bytes that are not a separator *)
Definition nohash (s : bytes) : bool := forallb (fun b => negb (b =? 35)) s.
Definition nosp (s : bytes) : bool := forallb (fun b => negb (b =? 32)) s.
Definition plain (s : bytes) : bool := nohash s && nosp s.

Lemma alnum_dash_not b c : is_alnum b || (b =? 45) = true -> c = 32 \/ c = 35 -> negb (b =? c) = true.
Proof.
  intros H [-> | ->].
  - destruct (N.eqb_spec b 32) as [->|]; [vm_compute in H; discriminate H|reflexivity].
  - destruct (N.eqb_spec b 35) as [->|]; [vm_compute in H; discriminate H|reflexivity].
Qed.
Lemma alphabet_plain s : forallb (fun b => is_alnum b || (b =? 45)) s = true -> plain s = true.
Proof.
  intros H. unfold plain, nohash, nosp. apply andb_true_iff; split; revert H; apply forallb_imp; intros b Hb;
    apply (alnum_dash_not b _ Hb); auto.
Qed.
Lemma alnum_plain s : forallb is_alnum s = true -> plain s = true.
Proof. intros H. apply alphabet_plain. revert H. apply forallb_imp. intros b ->. reflexivity. Qed.
Lemma join_plain toks : forallb (forallb is_alnum) toks = true -> plain (join toks) = true.
Proof. intros H. apply alphabet_plain. exact (join_alphabet toks H). Qed.

Lemma forallb_map {A B} (f : A -> B) (P : B -> bool) l : forallb P (map f l) = forallb (fun a => P (f a)) l.
Proof. induction l as [|a l IH]; [reflexivity|]. cbn [map forallb]. rewrite IH. reflexivity. Qed.

Lemma nohash_app a b : nohash (a ++ b) = nohash a && nohash b.
Proof. apply forallb_app. Qed.
Lemma plain_nohash s : plain s = true -> nohash s = true.
Proof. unfold plain. intros H. apply andb_true_iff in H as [H _]. exact H. Qed.
Lemma plain_nosp s : plain s = true -> nosp s = true.
Proof. unfold plain. intros H. apply andb_true_iff in H as [_ H]. exact H. Qed.

Lemma nohash_join_with sep l : nohash sep = true -> forallb nohash l = true -> nohash (join_with sep l) = true.
Proof.
  intros Hs. induction l as [|x l IH]; [reflexivity|]. cbn [forallb]. intros H. apply andb_true_iff in H as [Hx Hl].
  cbn [join_with]. destruct l as [|y l']; [exact Hx|]. rewrite !nohash_app, Hx, Hs, (IH Hl). reflexivity.
Qed.
Lemma all_alnum_nohash l : forallb (forallb is_alnum) l = true -> forallb nohash l = true.
Proof. apply forallb_imp. intros t Ht. exact (plain_nohash _ (alnum_plain _ Ht)). Qed.

(* ---------------------------------------------------------------- `words` : the last words of a text *)
Fixpoint spl (cur s : bytes) : list bytes :=
  match s with
  | [] => [rev cur]
  | c :: r => if 32 =? c then rev cur :: spl [] r else spl (c :: cur) r
  end.
Lemma split_on_aux_sp s : forall fuel cur, (List.length s < fuel)%nat -> split_on_aux fuel sp cur s = spl cur s.
Proof.
  induction s as [|c r IH]; intros fuel cur Hf; (destruct fuel as [|f]; [cbn [List.length] in Hf; lia|]); cbn [split_on_aux spl]; [reflexivity|].
  cbn [List.length] in Hf. unfold sp at 1. cbn [starts_with]. rewrite andb_true_r.
  destruct (32 =? c); [|apply IH; lia]. f_equal. unfold sp. cbn [List.length skipn]. apply IH. lia.
Qed.
Lemma words_spl s : words s = spl [] s.
Proof. unfold words, split_on. apply split_on_aux_sp. lia. Qed.
Lemma spl_app a w : forall cur, spl cur (a ++ 32 :: w) = spl cur a ++ spl [] w.
Proof.
  induction a as [|c a IH]; intros cur; cbn [app spl]; [reflexivity|].
  destruct (32 =? c); [rewrite IH; reflexivity|apply IH].
Qed.
Lemma spl_nosp w : forall cur, nosp w = true -> spl cur w = [rev cur ++ w].
Proof.
  induction w as [|c w IH]; intros cur H; cbn [spl]; [rewrite app_nil_r; reflexivity|].
  cbn [nosp forallb] in H. apply andb_true_iff in H as [Hc Hw]. rewrite N.eqb_sym. destruct (c =? 32); [discriminate Hc|].
  rewrite (IH _ Hw). cbn [rev]. rewrite <- app_assoc. reflexivity.
Qed.
Lemma rev_words_snoc a w : nosp w = true -> rev (words (a ++ sp ++ w)) = w :: rev (words a).
Proof.
  intros H. rewrite !words_spl. unfold sp. cbn [app]. rewrite spl_app, (spl_nosp w [] H). cbn [rev app].
  rewrite rev_app_distr. reflexivity.
Qed.

Lemma last_two a t w : nosp t = true -> nosp w = true ->
  step_tostring (a ++ sp ++ t ++ sp ++ w) = t /\ step_reparse (a ++ sp ++ t ++ sp ++ w) = w.
Proof.
  intros Ht Hw. unfold step_tostring, step_reparse.
  replace (a ++ sp ++ t ++ sp ++ w) with ((a ++ sp ++ t) ++ sp ++ w) by (rewrite <- !app_assoc; reflexivity).
  rewrite (rev_words_snoc _ w Hw), (rev_words_snoc a t Ht). split; reflexivity.
Qed.
Lemma last_word_snoc a w : nosp w = true -> last_word (a ++ sp ++ w) = w.
Proof. intros H. unfold last_word. rewrite (rev_words_snoc a w H). reflexivity. Qed.

(* ---------------------------------------------------------------- `split_on sep_hist` on a joined transcript *)
Lemma sep_hist_no_start c x rest : nohash (c :: x) = true -> starts_with sep_hist (c :: x ++ sep_hist ++ rest) = false.
Proof.
  intros H. cbn [nohash forallb] in H. apply andb_true_iff in H as [_ Hx].
  change sep_hist with [32; 35; 35; 32]. destruct x as [|y x'].
  - cbn [app starts_with]. change (35 =? 32) with false. cbn [andb]. apply andb_false_r.
  - cbn [forallb] in Hx. apply andb_true_iff in Hx as [Hy _]. cbn [app starts_with].
    rewrite (N.eqb_sym 35 y). destruct (y =? 35); [discriminate Hy|]. cbn [andb]. apply andb_false_r.
Qed.
Lemma sep_hist_no_start_last c x : nohash (c :: x) = true -> starts_with sep_hist (c :: x) = false.
Proof.
  intros H. cbn [nohash forallb] in H. apply andb_true_iff in H as [_ Hx].
  change sep_hist with [32; 35; 35; 32]. destruct x as [|y x'].
  - cbn [starts_with]. apply andb_false_r.
  - cbn [forallb] in Hx. apply andb_true_iff in Hx as [Hy _]. cbn [starts_with].
    rewrite (N.eqb_sym 35 y). destruct (y =? 35); [discriminate Hy|]. cbn [andb]. apply andb_false_r.
Qed.

Lemma split_piece x : forall fuel cur rest, nohash x = true -> (List.length x + List.length rest + 4 < fuel)%nat ->
  split_on_aux fuel sep_hist cur (x ++ sep_hist ++ rest)
  = (rev cur ++ x) :: split_on_aux (fuel - List.length x - 1) sep_hist [] rest.
Proof.
  induction x as [|c x IH]; intros fuel cur rest Hx Hf; (destruct fuel as [|f]; [lia|]).
  - cbn [app List.length]. change sep_hist with [32; 35; 35; 32]. cbn [app split_on_aux starts_with].
    rewrite !N.eqb_refl. cbn [andb List.length skipn]. rewrite app_nil_r. do 2 f_equal. lia.
  - cbn [app split_on_aux]. rewrite (sep_hist_no_start c x rest Hx).
    cbn [nohash forallb] in Hx. apply andb_true_iff in Hx as [_ Hx']. cbn [List.length] in Hf.
    rewrite (IH f (c :: cur) rest Hx' ltac:(lia)). cbn [rev List.length]. rewrite <- app_assoc. cbn [app].
    f_equal.
Qed.
Lemma split_last x : forall fuel cur, nohash x = true -> (List.length x < fuel)%nat ->
  split_on_aux fuel sep_hist cur x = [rev cur ++ x].
Proof.
  induction x as [|c x IH]; intros fuel cur Hx Hf; (destruct fuel as [|f]; [cbn [List.length] in Hf; lia|]); cbn [split_on_aux].
  - rewrite app_nil_r. reflexivity.
  - rewrite (sep_hist_no_start_last c x Hx). cbn [nohash forallb] in Hx. apply andb_true_iff in Hx as [_ Hx'].
    cbn [List.length] in Hf. rewrite (IH f (c :: cur) Hx' ltac:(lia)). cbn [rev]. rewrite <- app_assoc. reflexivity.
Qed.

Lemma split_joined xs : forall fuel cur x, forallb nohash (x :: xs) = true ->
  (List.length (join_with sep_hist (x :: xs)) < fuel)%nat ->
  split_on_aux fuel sep_hist cur (join_with sep_hist (x :: xs)) = (rev cur ++ x) :: xs.
Proof.
  induction xs as [|y xs IH]; intros fuel cur x H Hf; cbn [forallb] in H; apply andb_true_iff in H as [Hx Hr].
  - cbn [join_with] in *. apply split_last; assumption.
  - change (join_with sep_hist (x :: y :: xs)) with (x ++ sep_hist ++ join_with sep_hist (y :: xs)) in *.
    rewrite !app_length in Hf. change (List.length sep_hist) with 4%nat in Hf.
    set (J := join_with sep_hist (y :: xs)) in *.
    assert (F1 : (List.length x + List.length J + 4 < fuel)%nat) by lia.
    rewrite (split_piece x fuel cur J Hx F1). f_equal.
    assert (F2 : (List.length J < fuel - List.length x - 1)%nat) by lia.
    subst J. rewrite (IH _ [] y Hr F2). reflexivity.
Qed.

Lemma forallb_filter {A} (P f : A -> bool) l : forallb P l = true -> forallb P (filter f l) = true.
Proof.
  induction l as [|a l IH]; [reflexivity|]. cbn [forallb filter]. intros H. apply andb_true_iff in H as [Ha Hl].
  destruct (f a); [cbn [forallb]; rewrite Ha|]; exact (IH Hl).
Qed.

(* whatever is true of every piece of a joined transcript is true of every step the view extracts from it *)
Lemma hist_steps_joined P xs : forallb nohash xs = true -> forallb P xs = true ->
  forallb P (hist_steps (join_with sep_hist xs)) = true.
Proof.
  intros Hc HP. destruct xs as [|x xs]; [reflexivity|]. unfold hist_steps.
  destruct (join_with sep_hist (x :: xs)) as [|b s] eqn:J; [reflexivity|]. rewrite <- J.
  apply forallb_filter. unfold split_on.
  assert (F : (List.length (join_with sep_hist (x :: xs)) < S (List.length (join_with sep_hist (x :: xs))))%nat) by lia.
  rewrite (split_joined xs _ [] x Hc F). exact HP.
Qed.

(* ---------------------------------------------------------------- the formatted pieces contain no separator *)
Lemma li_fields_alnum x : li_inv x = true ->
  forallb is_alnum (language_text (li_lang x)) = true
  /\ forallb (forallb is_alnum) (opt_tok (li_script x)) = true
  /\ forallb (forallb is_alnum) (opt_tok (li_region x)) = true
  /\ forallb (forallb is_alnum) (li_variants_list x) = true.
Proof.
  intros H. pose proof (li_tokens_alnum x H) as A. unfold li_tokens in A. cbn [forallb] in A.
  rewrite !forallb_app in A. apply andb_true_iff in A as [A1 A]. apply andb_true_iff in A as [A2 A].
  apply andb_true_iff in A as [A3 A4]. auto.
Qed.
Lemma nohash_fmt_opt o : forallb (forallb is_alnum) (opt_tok o) = true -> nohash (fmt_opt o) = true.
Proof.
  destruct o as [s|]; [|reflexivity]. cbn [opt_tok forallb fmt_opt]. rewrite andb_true_r. intros H.
  exact (plain_nohash _ (alnum_plain _ H)).
Qed.
Lemma nohash_fmt_langid x : li_inv x = true -> nohash (fmt_langid x) = true.
Proof.
  intros H. destruct (li_fields_alnum x H) as (A1 & A2 & A3 & A4). unfold fmt_langid.
  rewrite !nohash_app, (plain_nohash _ (alnum_plain _ A1)), (nohash_fmt_opt _ A2), (nohash_fmt_opt _ A3).
  unfold li_to_string. rewrite (plain_nohash _ (join_plain _ (li_tokens_alnum x H))).
  assert (V : nohash (fmt_variants (li_variants x)) = true).
  { unfold li_variants_list in A4. destruct (li_variants x) as [v|]; [|reflexivity]. unfold fmt_variants.
    rewrite !nohash_app, (nohash_join_with comma v eq_refl (all_alnum_nohash _ A4)). reflexivity. }
  rewrite V. destruct (li_lang x); reflexivity.
Qed.

Lemma nohash_fmt_kmap ck cv m :
  (forall k, ck k = true -> forallb is_alnum k = true) -> (forall v, cv v = true -> forallb is_alnum v = true) ->
  forallb (fun kv => ck (fst kv) && forallb cv (snd kv)) m = true -> nohash (fmt_kmap m) = true.
Proof.
  intros Hk Hv H. unfold fmt_kmap. apply nohash_join_with; [reflexivity|]. rewrite forallb_map. revert H. apply forallb_imp.
  intros [k vs] Hkv. cbn [fst snd] in *. apply andb_true_iff in Hkv as [A B].
  rewrite !nohash_app, (plain_nohash _ (alnum_plain _ (Hk _ A))). cbn [andb].
  change (nohash (bs "=")) with true. cbn [andb]. apply nohash_join_with; [reflexivity|].
  apply all_alnum_nohash. revert B. apply forallb_imp. exact Hv.
Qed.

Lemma nohash_fmt_ext e : ext_inv e = true -> nohash (fmt_ext e) = true.
Proof.
  intros Hinv. unfold ext_inv in Hinv. apply andb_true_iff in Hinv as [Hinv Hx]. apply andb_true_iff in Hinv as [Hu Ht].
  unfold u_inv in Hu. apply andb_true_iff in Hu as [Hu _]. apply andb_true_iff in Hu as [Hk Ha].
  unfold kmap_inv in Hk. apply andb_true_iff in Hk as [_ Hk].
  unfold t_inv in Ht. apply andb_true_iff in Ht as [Hl Hf]. unfold kmap_inv in Hf. apply andb_true_iff in Hf as [_ Hf].
  unfold x_inv in Hx. apply andb_true_iff in Hx as [Hx _].
  assert (U : nohash (fmt_u (e_unicode e)) = true).
  { unfold fmt_u. rewrite !nohash_app, (nohash_fmt_kmap _ _ _ ukey_alnum utype_alnum Hk).
    rewrite (nohash_join_with comma _ eq_refl); [reflexivity|]. apply all_alnum_nohash. revert Ha. apply forallb_imp. exact attr_alnum. }
  assert (T : nohash (fmt_t (e_transform e)) = true).
  { unfold fmt_t. rewrite !nohash_app, (nohash_fmt_kmap _ _ _ tkey_alnum tvalue_alnum Hf).
    destruct (t_lang (e_transform e)) as [l|]; [rewrite (nohash_fmt_langid l Hl)|]; reflexivity. }
  assert (X : nohash (fmt_x (e_private e)) = true).
  { unfold fmt_x. rewrite !nohash_app. rewrite (nohash_join_with comma _ eq_refl); [reflexivity|].
    apply all_alnum_nohash. revert Hx. apply forallb_imp. exact priv_alnum. }
  unfold fmt_ext. rewrite !nohash_app, U, T, X.
  destruct (u_is_empty _), (t_is_empty _), (nil_b _), (e_is_empty e); reflexivity.
Qed.

Lemma loc_string_plain l : loc_inv l = true -> plain (loc_to_string l) = true.
Proof.
  intros H. unfold loc_inv in H. apply andb_true_iff in H as [Hi He]. unfold loc_to_string. apply join_plain.
  unfold loc_tokens. rewrite List.forallb_app. apply andb_true_iff; split; [exact (li_tokens_alnum _ Hi)|exact (ext_tokens_alnum _ He)].
Qed.
Lemma nohash_fmt_locale l : loc_inv l = true -> nohash (fmt_locale l) = true.
Proof.
  intros H. pose proof (loc_string_plain l H) as P. unfold loc_inv in H. apply andb_true_iff in H as [Hi He].
  unfold fmt_locale. rewrite !nohash_app, (nohash_fmt_langid _ Hi), (nohash_fmt_ext _ He), (plain_nohash _ P). reflexivity.
Qed.

(* what an operation answers: the lists are values held by the state *)
Definition out_clean (w : out) : bool := match w with OutList l => forallb (forallb is_alnum) l | _ => true end.
Lemma nohash_fmt_out w : out_clean w = true -> nohash (fmt_out w) = true.
Proof.
  destruct w as [|b|l| |]; cbn [out_clean fmt_out]; try reflexivity; [destruct b; reflexivity|].
  intros H. rewrite !nohash_app, (nohash_join_with comma l eq_refl (all_alnum_nohash _ H)). reflexivity.
Qed.

Lemma kfind_values_alnum ck cv k m :
  (forall v, cv v = true -> forallb is_alnum v = true) ->
  forallb (fun kv => ck (fst kv) && forallb cv (snd kv)) m = true ->
  forallb (forallb is_alnum) (match kfind k m with Some l => l | None => [] end) = true.
Proof.
  intros Hv H. destruct (kfind k m) as [l|] eqn:F; [|reflexivity]. apply kfind_In in F.
  rewrite forallb_forall in H. specialize (H _ F). cbn [fst snd] in H. apply andb_true_iff in H as [_ H].
  revert H. apply forallb_imp. exact Hv.
Qed.

Section WithTables.
Variable T : tables.
Hypothesis HT : tables_full_extend T = true.
Hypothesis HW : tables_wf_ints T = true.

Lemma step_out_clean s o s' w : loc_inv s = true -> step T s o = Some (s', w) -> out_clean w = true.
Proof.
  intros Hinv. pose proof Hinv as H0. unfold loc_inv in H0. apply andb_true_iff in H0 as [_ He].
  unfold ext_inv in He. apply andb_true_iff in He as [He _]. apply andb_true_iff in He as [Hu Ht].
  unfold u_inv in Hu. apply andb_true_iff in Hu as [Hu _]. apply andb_true_iff in Hu as [Hk _].
  unfold kmap_inv in Hk. apply andb_true_iff in Hk as [_ Hk].
  unfold t_inv in Ht. apply andb_true_iff in Ht as [_ Hf]. unfold kmap_inv in Hf. apply andb_true_iff in Hf as [_ Hf].
  destruct o; cbn [step]; unfold of_res;
    try (repeat match goal with
                | |- context [match ?x with _ => _ end] =>
                  lazymatch x with kfind _ _ => fail | _ => destruct x end
                | |- context [let (_, _) := ?x in _] => destruct x
                end; intros E; try discriminate E; injection E as _ <-; try reflexivity).
  - exact (kfind_values_alnum _ _ _ _ utype_alnum Hk).
  - exact (kfind_values_alnum _ _ _ _ tvalue_alnum Hf).
Qed.

Lemma run_out_clean ops : forall s steps, loc_inv s = true -> run T s ops = Some steps ->
  forallb (fun p => loc_inv (fst p) && out_clean (snd p)) steps = true.
Proof.
  induction ops as [|o ops IH]; intros s steps Hs; cbn [run]; [intros H; injection H as <-; reflexivity|].
  destruct (step T s o) as [[s' w]|] eqn:E; [|discriminate].
  destruct (run T s' ops) as [l|] eqn:El; [|discriminate]. intros H. injection H as <-.
  cbn [forallb fst snd]. rewrite (step_inv T HT HW _ _ _ _ Hs E), (step_out_clean _ _ _ _ Hs E). cbn [andb].
  exact (IH _ _ (step_inv T HT HW _ _ _ _ Hs E) El).
Qed.
End WithTables.

(* ---------------------------------------------------------------- the views *)
Lemma fmt_step_shape l w :
  fmt_step l w = (fmt_out w ++ sp ++ fmt_langid (loc_id l) ++ sp ++ fmt_ext (loc_ext l)) ++ sp ++ loc_to_string l ++ sp ++ model_reparse l.
Proof. unfold fmt_step, fmt_locale. rewrite <- !app_assoc. reflexivity. Qed.

Lemma fmt_step_fields l w : loc_inv l = true -> out_clean w = true ->
  nohash (fmt_step l w) = true /\ step_tostring (fmt_step l w) = loc_to_string l /\ step_reparse (fmt_step l w) = bs "same".
Proof.
  intros Hl Hw. split.
  - unfold fmt_step. rewrite !nohash_app, (nohash_fmt_out _ Hw), (nohash_fmt_locale _ Hl), (model_reparse_same _ Hl). reflexivity.
  - rewrite fmt_step_shape, (model_reparse_same _ Hl).
    apply last_two; [exact (plain_nosp _ (loc_string_plain l Hl))|reflexivity].
Qed.

Lemma start_inv st l0 : start_of st = Some l0 -> loc_inv l0 = true.
Proof.
  unfold start_of. destruct st as [|c st']; [intros H; injection H as <-; reflexivity|].
  destruct (locale_from_bytes (c :: st')) as [l| | |] eqn:P; try discriminate. intros H. injection H as <-.
  exact (locale_parse_inv _ _ P).
Qed.

(* every step the C04 / C05 views extract from the model's transcript is one the transcript was built from, its
   printed string is canonical text and its re-parse verdict is "same" *)
Lemma hist_views args :
  starts_with (bs "BAD") (model_hist args) = false ->
  forallb (fun st => canon_locale_text (step_tostring st)) (hist_steps (model_hist args)) = true
  /\ forallb (fun st => beqb (step_reparse st) (bs "same")) (hist_steps (model_hist args)) = true.
Proof.
  unfold model_hist. destruct args as [|st rest]; [discriminate|]. destruct (start_of st) as [l0|] eqn:S; [|discriminate].
  intros _. pose proof (start_inv _ _ S) as I0.
  destruct (run the_tables l0 (decode_ops (List.length rest) rest)) as [steps|] eqn:R.
  2:{ exfalso. exact (run_defined the_tables data_full_extend data_wf_ints _ _ I0 R). }
  pose proof (run_out_clean the_tables data_full_extend data_wf_ints _ _ _ I0 R) as Inv.
  assert (F : forall p, In p steps -> let x := fmt_step (fst p) (snd p) in
            nohash x = true /\ step_tostring x = loc_to_string (fst p) /\ step_reparse x = bs "same" /\ loc_inv (fst p) = true).
  { intros p Hp. rewrite forallb_forall in Inv. specialize (Inv p Hp). apply andb_true_iff in Inv as [A B].
    destruct (fmt_step_fields _ _ A B) as (X & Y & Z). cbv zeta. auto. }
  assert (CL : forallb nohash (map (fun p => fmt_step (fst p) (snd p)) steps) = true).
  { rewrite forallb_map. apply forallb_forall. intros p Hp. exact (proj1 (F p Hp)). }
  split; apply (hist_steps_joined _ _ CL); rewrite forallb_map; apply forallb_forall; intros p Hp;
    destruct (F p Hp) as (_ & Y & Z & A).
  - rewrite Y. exact (canon_text_printed _ A).
  - rewrite Z. reflexivity.
Qed.

Lemma li_string_nosp v : li_inv v = true -> nosp (li_to_string v) = true.
Proof. intros H. unfold li_to_string. exact (plain_nosp _ (join_plain _ (li_tokens_alnum v H))). Qed.
Lemma last_word_fmt_langid v : li_inv v = true -> forall pre, last_word (pre ++ fmt_langid v) = li_to_string v.
Proof.
  intros H pre. unfold fmt_langid. rewrite !app_assoc. rewrite <- (app_assoc _ sp (li_to_string v)).
  apply last_word_snoc. exact (li_string_nosp v H).
Qed.

Lemma starts_ok_err e : starts_with (bs "OK ") (fmt_err e) = false.
Proof. destruct e; reflexivity. Qed.

Ltac model_is E :=
  unfold oracle_model, oracle_model_subtags, oracle_model_likely, oracle_model_langid, oracle_model_locale; only_op E.

(* THE VIEWS ARE SOUND: whenever a property has a view of its own for an operation, the model's answer passes it *)
Theorem views_sound prop op args r :
  spec_for_property prop op args (oracle_model op args) = Some r -> passes r.
Proof.
  unfold spec_for_property.
  destruct ((beqb prop (bs "C07") || beqb prop (bs "C08"))
            && (beqb op (bs "maximize") || beqb op (bs "minimize") || beqb op (bs "li_maximize") || beqb op (bs "li_minimize"))).
  { intros H. apply some_inj in H. subst r. exact I. }
  destruct (beqb prop (bs "C04") && beqb op (bs "loc_hist")) eqn:V1.
  { apply andb_true_iff in V1 as [_ E]. intros H. apply some_inj in H. subst r.
    assert (M : oracle_model op args = model_hist args) by (model_is E; reflexivity). rewrite M.
    destruct (starts_with (bs "BAD") (model_hist args)) eqn:B; [exact I|]. exact (proj1 (hist_views args B)). }
  destruct (beqb prop (bs "C05") && beqb op (bs "loc_hist")) eqn:V2.
  { apply andb_true_iff in V2 as [_ E]. intros H. apply some_inj in H. subst r.
    assert (M : oracle_model op args = model_hist args) by (model_is E; reflexivity). rewrite M.
    destruct (starts_with (bs "BAD") (model_hist args)) eqn:B; [exact I|]. exact (proj2 (hist_views args B)). }
  destruct (beqb prop (bs "C04") && (beqb op (bs "langid") || beqb op (bs "li_from_parts"))) eqn:V3.
  { apply andb_true_iff in V3 as [_ E]. intros H. apply some_inj in H. subst r.
    destruct (beqb op (bs "langid")) eqn:E1.
    - assert (N : beqb op (bs "li_from_parts") = false) by (apply (op_ne op _ _ E1); ne). rewrite N.
      assert (M : oracle_model op args = fmt_res fmt_langid (langid_from_bytes (arg1 args))) by (model_is E1; reflexivity).
      rewrite M, orb_false_r, langid_from_bytes_spec.
      destruct (spec_langid (split (arg1 args))) as [v|] eqn:S; cbn [fmt_res].
      + destruct (parsed_inv _ _ S) as [_ Iv]. change (starts_with (bs "OK ") (bs "OK " ++ fmt_langid v)) with true. lazy iota.
        change (starts_with (bs "BADARG") (bs "OK " ++ fmt_langid v)) with false. lazy iota. cbn [passes].
        rewrite (last_word_fmt_langid v Iv). exact (li_to_string_canonical v Iv).
      + rewrite starts_ok_err. exact I.
    - cbn [orb] in E. rewrite E, orb_true_r.
      assert (M : oracle_model op args
                  = match parts_of_args args with
                    | Some (l, s0, r, vs) =>
                      let x := li_from_parts l s0 r vs in
                      let y := langid_from_bytes (join (language_text l :: opt_tok s0 ++ opt_tok r ++ vs)) in
                      fmt_langid x ++ sp ++ (match y with Ok y' => if li_eqb x y' then bs "eqparse" else bs "NEparse" | _ => bs "NOparse" end)
                    | None => bs "BADARG" end) by (model_is E; reflexivity).
      rewrite M. destruct (parts_of_args args) as [[[[l s0] rg] vs]|] eqn:PA; [|exact I].
      destruct (parts_of_args_canon _ _ _ _ _ PA) as (C1 & C2 & C3 & C4).
      pose proof (from_parts_is_parse l s0 rg vs C1 C2 C3 C4) as FP. cbv zeta. rewrite FP, li_eqb_refl.
      pose proof (langid_parse_inv _ _ FP) as Iv. set (x := li_from_parts l s0 rg vs) in *.
      destruct (starts_with (bs "BADARG") (fmt_langid x ++ sp ++ bs "eqparse")); [exact I|]. cbn [passes].
      assert (SH : fmt_langid x ++ sp ++ bs "eqparse"
                   = (language_text (li_lang x) ++ (match li_lang x with None => bs "!" | Some _ => [] end) ++ sp ++ fmt_opt (li_script x) ++ sp
                      ++ fmt_opt (li_region x) ++ sp ++ fmt_variants (li_variants x)) ++ sp ++ li_to_string x ++ sp ++ bs "eqparse").
      { unfold fmt_langid. rewrite <- !app_assoc. reflexivity. }
      rewrite SH. rewrite (proj1 (last_two _ (li_to_string x) (bs "eqparse") (li_string_nosp x Iv) eq_refl)).
      exact (li_to_string_canonical x Iv). }
  destruct (beqb prop (bs "C05") && (beqb op (bs "loc_canonicalize") || beqb op (bs "li_canonicalize"))).
  { intros H. apply some_inj in H. subst r. exact I. }
  discriminate.
Qed.

(* with OracleSoundAll.oracle_sound: for EVERY property, operation and argument list (side conditions of the likely
   subtags operations aside) the model's answer passes the specification the driver applies *)
From UL Require Import OracleSoundAll.
Theorem oracle_sound_total prop op args :
  side_conditions op args -> passes (oracle_spec prop op args (oracle_model op args)).
Proof.
  intros SC. destruct (spec_for_property prop op args (oracle_model op args)) as [r|] eqn:V.
  - unfold oracle_spec. rewrite V. exact (views_sound prop op args r V).
  - exact (oracle_sound prop op args SC V).
Qed.
