(* OracleSoundMeta.v — the metamorphic-pair operations (`loc_meta`, `li_meta`, `ext_meta`: two spellings, one verdict).
   They are the one place where `oracle_sound_total` has a side condition, because their verdict is about PAIRS the
   generator builds.  Proved here: the model's answer passes exactly when the two spellings have the SAME OUTCOME
   (both rejected, or both accepted with equal values) - which is the conclusion of every C09 theorem (case folding,
   separator choice, -u-/-t- order, keyword / tfield / attribute / variant order).  So each class of pairs the
   generators build is covered by: its C09 theorem  ->  same_outcome  ->  this file  ->  the verdict SAME/BOTH-ERR. *)
From UL Require Import Bytes Subtags LangId Ext Grammar LangIdSpec LocaleInv LocaleOrd BytesProofs SplitProofs LangIdAlgebra LocaleAlgebra ExtProofs OrderProofs FoldProofs
                       Oracle OracleSound.
From Coq Require Import String Lia.
Open Scope N_scope.

Theorem loc_meta_sound op args r : beqb op (bs "loc_meta") = true ->
  same_outcome (locale_from_bytes (arg_n 0 args)) (locale_from_bytes (arg_n 1 args)) ->
  oracle_model_locale op args = Some r -> passes (oracle_spec_locale op args r).
Proof.
  intros E SO. unfold oracle_model_locale, oracle_spec_locale. only_op E. intros H. apply some_inj in H. subst r. cbn [passes].
  destruct (locale_from_bytes (arg_n 0 args)) as [x|e| |], (locale_from_bytes (arg_n 1 args)) as [y|e'| |]; cbn [same_outcome] in SO; try contradiction.
  - subst y. rewrite loc_eqb_refl, beqb_refl. reflexivity.
  - reflexivity.
Qed.
Theorem li_meta_sound op args r : beqb op (bs "li_meta") = true ->
  same_outcome (langid_from_bytes (arg_n 0 args)) (langid_from_bytes (arg_n 1 args)) ->
  oracle_model_locale op args = Some r -> passes (oracle_spec_locale op args r).
Proof.
  intros E SO. unfold oracle_model_locale, oracle_spec_locale. only_op E. intros H. apply some_inj in H. subst r. cbn [passes].
  destruct (langid_from_bytes (arg_n 0 args)) as [x|e| |], (langid_from_bytes (arg_n 1 args)) as [y|e'| |]; cbn [same_outcome] in SO; try contradiction.
  - subst y. rewrite li_eqb_refl, beqb_refl. reflexivity.
  - reflexivity.
Qed.
Theorem ext_meta_sound op args r : beqb op (bs "ext_meta") = true ->
  same_outcome (extmap_from_bytes (arg_n 0 args)) (extmap_from_bytes (arg_n 1 args)) ->
  oracle_model_locale op args = Some r -> passes (oracle_spec_locale op args r).
Proof.
  intros E SO. unfold oracle_model_locale, oracle_spec_locale. only_op E. intros H. apply some_inj in H. subst r. cbn [passes].
  destruct (extmap_from_bytes (arg_n 0 args)) as [x|e| |], (extmap_from_bytes (arg_n 1 args)) as [y|e'| |]; cbn [same_outcome] in SO; try contradiction.
  - subst y. rewrite (proj2 (ext_eqb_iff x x) eq_refl), beqb_refl. reflexivity.
  - reflexivity.
Qed.

(* the converse: a verdict SAME / BOTH-ERR of the model means the two spellings do have the same outcome - the
   operation measures exactly the relation the C09 theorems are about *)
Theorem loc_meta_complete args :
  (match locale_from_bytes (arg_n 0 args), locale_from_bytes (arg_n 1 args) with
   | Ok x, Ok y => loc_eqb x y && beqb (loc_to_string x) (loc_to_string y)
   | Err _, Err _ => true
   | _, _ => false end) = true ->
  same_outcome (locale_from_bytes (arg_n 0 args)) (locale_from_bytes (arg_n 1 args)).
Proof.
  destruct (locale_from_bytes (arg_n 0 args)) as [x|e| |], (locale_from_bytes (arg_n 1 args)) as [y|e'| |]; cbn [same_outcome]; try discriminate; auto.
  intros H. apply andb_true_iff in H as [H _]. apply loc_eqb_iff in H. exact H.
Qed.

(* instances: the pair classes of the generators *)
Corollary loc_meta_fold op args r : beqb op (bs "loc_meta") = true ->
  map fold_byte (arg_n 0 args) = map fold_byte (arg_n 1 args) ->
  oracle_model_locale op args = Some r -> passes (oracle_spec_locale op args r).
Proof.
  intros E F. apply (loc_meta_sound op args r E). rewrite (locale_fold_invariant _ _ F).
  apply same_outcome_refl. apply locale_from_bytes_total.
Qed.

(* every C09 theorem concludes either `same_outcome r r'` or `r = r'`; the second form: *)
Corollary loc_meta_equal op args r : beqb op (bs "loc_meta") = true ->
  locale_from_bytes (arg_n 0 args) = locale_from_bytes (arg_n 1 args) ->
  oracle_model_locale op args = Some r -> passes (oracle_spec_locale op args r).
Proof. intros E F. apply (loc_meta_sound op args r E). rewrite F. apply same_outcome_refl. apply locale_from_bytes_total. Qed.
Corollary li_meta_equal op args r : beqb op (bs "li_meta") = true ->
  langid_from_bytes (arg_n 0 args) = langid_from_bytes (arg_n 1 args) ->
  oracle_model_locale op args = Some r -> passes (oracle_spec_locale op args r).
Proof. intros E F. apply (li_meta_sound op args r E). rewrite F. apply same_outcome_refl. apply langid_from_bytes_total. Qed.
Corollary ext_meta_equal op args r : beqb op (bs "ext_meta") = true ->
  extmap_from_bytes (arg_n 0 args) = extmap_from_bytes (arg_n 1 args) ->
  oracle_model_locale op args = Some r -> passes (oracle_spec_locale op args r).
Proof. intros E F. apply (ext_meta_sound op args r E). rewrite F. apply same_outcome_refl. apply extmap_from_bytes_total. Qed.
