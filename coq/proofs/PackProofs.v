(* PackProofs.v — integer forms: le_pack / le_unpack / strip (C17 raw round trip, injectivity) *)
From UL Require Import Bytes Subtags BytesProofs.
From Coq Require Import ZArith Lia ZifyBool ZifyN.
Open Scope N_scope.
Arguments N.add : simpl never.
Arguments N.sub : simpl never.
Arguments N.mul : simpl never.
Arguments N.leb : simpl never.
Arguments N.ltb : simpl never.
Arguments N.eqb : simpl never.
Arguments N.div : simpl never.
Arguments N.modulo : simpl never.
Ltac Zify.zify_post_hook ::= Z.div_mod_to_equations.

(* every byte is a non-NUL u8 *)
Definition small_byte (b : N) : bool := (1 <=? b) && (b <=? 255).
Definition small (s : bytes) : bool := forallb small_byte s.

Lemma le_pack_inj a b : small a = true -> small b = true -> le_pack a = le_pack b -> a = b.
Proof.
  revert b; induction a as [|x a IH]; intros [|y b]; cbn [small forallb le_pack]; intros Ha Hb H.
  - reflexivity.
  - apply andb_true_iff in Hb as [Hy _]. unfold small_byte in Hy. lia.
  - apply andb_true_iff in Ha as [Hx _]. unfold small_byte in Hx. lia.
  - apply andb_true_iff in Ha as [Hx Ha]. apply andb_true_iff in Hb as [Hy Hb].
    unfold small_byte in Hx, Hy.
    assert (x = y /\ le_pack a = le_pack b) as [-> E] by lia.
    f_equal. apply IH; assumption.
Qed.

Lemma le_unpack_pack n s : small s = true -> (length s <= n)%nat ->
  le_unpack n (le_pack s) = s ++ repeat 0 (n - length s).
Proof.
  revert s; induction n as [|n IH]; intros s Hs Hl.
  - destruct s; [reflexivity|cbn [length] in Hl; lia].
  - destruct s as [|x s].
    + cbn [le_pack le_unpack length Nat.sub app repeat]. f_equal.
      specialize (IH [] eq_refl ltac:(cbn; lia)). cbn [le_pack length app] in IH.
      rewrite Nat.sub_0_r in IH. exact IH.
    + cbn [small forallb] in Hs. apply andb_true_iff in Hs as [Hx Hs]. unfold small_byte in Hx.
      cbn [le_pack le_unpack length Nat.sub app]. cbn [length] in Hl.
      assert ((x + 256 * le_pack s) mod 256 = x) as -> by lia.
      assert ((x + 256 * le_pack s) / 256 = le_pack s) as -> by lia.
      f_equal. apply IH; [exact Hs|lia].
Qed.

Lemma strip_zeros k : strip (repeat 0 k) = [].
Proof. induction k as [|k IH]; cbn [repeat strip]; [reflexivity|]. rewrite IH. reflexivity. Qed.

Lemma strip_small_app s k : small s = true -> strip (s ++ repeat 0 k) = s.
Proof.
  induction s as [|x s IH]; cbn [app]; intros Hs.
  - apply strip_zeros.
  - cbn [small forallb] in Hs. apply andb_true_iff in Hs as [Hx Hs]. unfold small_byte in Hx.
    cbn [strip]. rewrite (IH Hs). destruct s as [|y s'].
    + assert ((x =? 0) = false) as -> by lia. reflexivity.
    + reflexivity.
Qed.

Lemma from_raw_pack n s : small s = true -> (length s <= n)%nat -> from_raw n (le_pack s) = s.
Proof. intros Hs Hl. unfold from_raw. rewrite (le_unpack_pack n s Hs Hl). apply strip_small_app; exact Hs. Qed.

(* a packed tiny string fits the integer width: no u32/u64 overflow *)
Lemma le_pack_bound s : small s = true -> le_pack s < 256 ^ N.of_nat (length s).
Proof.
  induction s as [|x s IH]; cbn [small forallb le_pack length]; intros Hs.
  - cbn. lia.
  - apply andb_true_iff in Hs as [Hx Hs]. unfold small_byte in Hx. specialize (IH Hs).
    rewrite Nat2N.inj_succ, N.pow_succ_r'. lia.
Qed.

Lemma tiny_small n s : tiny_ok n s = true -> small s = true /\ (length s <= n)%nat.
Proof.
  unfold tiny_ok. intros H. apply andb_true_iff in H as [H1 H2]. split; [|lia].
  revert H2. apply forallb_imp. intros x. unfold tiny_byte, small_byte. lia.
Qed.

(* character classes are non-NUL bytes *)
Lemma alpha_small b : is_alpha b = true -> small_byte b = true.
Proof. unfold is_alpha, is_upper, is_lower, in_range, small_byte. lia. Qed.
Lemma digit_small b : is_digit b = true -> small_byte b = true.
Proof. unfold is_digit, in_range, small_byte. lia. Qed.
Lemma alnum_small b : is_alnum b = true -> small_byte b = true.
Proof. unfold is_alnum. intros H. apply orb_true_iff in H as [H|H]; [apply alpha_small|apply digit_small]; exact H. Qed.
Lemma forallb_small_of p t : (forall b, p b = true -> small_byte b = true) -> forallb p t = true -> small t = true.
Proof. intros H. apply forallb_imp. exact H. Qed.
