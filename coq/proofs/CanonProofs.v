(* CanonProofs.v — canonical output text of LanguageIdentifier (C04), subtag round trips (C05),
   case / separator insensitivity of the langid parser (C09). *)
From UL Require Import Bytes Subtags LangId Grammar LangIdSpec Canonical BytesProofs SubtagProofs SortProofs SplitProofs LangIdProofs.
From Coq Require Import Lia ZifyBool ZifyN.
Open Scope N_scope.
Arguments N.add : simpl never.
Arguments N.sub : simpl never.
Arguments N.leb : simpl never.
Arguments N.eqb : simpl never.

(* ---------- C04: to_string of an invariant-satisfying value is canonical text ---------- *)
Lemma join_alphabet toks : forallb (forallb is_alnum) toks = true -> canon_alphabet (join toks) = true.
Proof.
  unfold canon_alphabet. induction toks as [|t toks IH]; cbn [forallb join]; [reflexivity|].
  intros H. apply andb_true_iff in H as [Ht Hr].
  assert (Ht' : forallb (fun b => is_alnum b || (b =? 45)) t = true).
  { revert Ht. apply forallb_imp. intros b ->. reflexivity. }
  destruct toks as [|u toks']; [exact Ht'|].
  rewrite forallb_app, Ht'. cbn [forallb andb]. rewrite (IH Hr). rewrite orb_true_r. reflexivity.
Qed.

Lemma lang_tok_alnum t : lang_tok t = true -> forallb is_alnum t = true.
Proof. unfold lang_tok. intros H. apply andb_true_iff in H as [H _]. revert H. apply forallb_imp, is_alpha_alnum. Qed.
Lemma script_tok_alnum t : script_tok t = true -> forallb is_alnum t = true.
Proof. unfold script_tok. intros H. apply andb_true_iff in H as [H _]. revert H. apply forallb_imp, is_alpha_alnum. Qed.
Lemma region_tok_alnum t : region_tok t = true -> forallb is_alnum t = true.
Proof. unfold region_tok. intros H. apply orb_true_iff in H as [H|H]; apply andb_true_iff in H as [H _]; revert H;
  apply forallb_imp; [apply is_alpha_alnum|apply is_digit_alnum]. Qed.
Lemma variant_tok_alnum t : variant_tok t = true -> forallb is_alnum t = true.
Proof.
  unfold variant_tok. intros H. apply orb_true_iff in H as [H|H].
  - apply andb_true_iff in H as [H _]. exact H.
  - destruct t as [|c r]; [discriminate|]. apply andb_true_iff in H as [H _]. apply andb_true_iff in H as [Hc Hr].
    cbn [forallb]. rewrite (is_digit_alnum _ Hc), Hr. reflexivity.
Qed.

Lemma li_tokens_alnum x : li_inv x = true -> forallb (forallb is_alnum) (li_tokens x) = true.
Proof.
  destruct x as [l sc rg vs]. unfold li_inv, li_tokens. cbn [li_lang li_script li_region li_variants].
  intros H. apply andb_true_iff in H as [H Hv]. apply andb_true_iff in H as [H Hr]. apply andb_true_iff in H as [Hl Hs].
  cbn [forallb]. rewrite (lang_tok_alnum _ (proj1 (lang_text_tok _ Hl))). cbn [andb].
  rewrite !forallb_app. apply andb_true_iff; split; [|apply andb_true_iff; split].
  - destruct sc as [s|]; cbn [opt_tok forallb opt_all] in *; [|reflexivity].
    unfold canon_script in Hs. apply andb_true_iff in Hs as [Hs _]. rewrite (script_tok_alnum _ Hs). reflexivity.
  - destruct rg as [r|]; cbn [opt_tok forallb opt_all] in *; [|reflexivity].
    unfold canon_region in Hr. apply andb_true_iff in Hr as [Hr _]. rewrite (region_tok_alnum _ Hr). reflexivity.
  - unfold li_variants_list. cbn [li_variants]. destruct vs as [v|]; [|reflexivity]. cbn [variants_inv] in Hv.
    apply andb_true_iff in Hv as [Hv _]. apply andb_true_iff in Hv as [_ Hc].
    destruct (map_lower_canon _ Hc) as [_ Ht]. revert Ht. apply forallb_imp. apply variant_tok_alnum.
Qed.

Lemma canon_variant_not_script t : canon_variant t = true -> canon_script t = false.
Proof. unfold canon_variant, canon_script. intros H. apply andb_true_iff in H as [H _]. rewrite (variant_not_script _ H). reflexivity. Qed.
Lemma canon_variant_not_region t : canon_variant t = true -> canon_region t = false.
Proof. unfold canon_variant, canon_region. intros H. apply andb_true_iff in H as [H _]. rewrite (variant_not_region _ H). reflexivity. Qed.
Lemma canon_region_not_script t : canon_region t = true -> canon_script t = false.
Proof. unfold canon_region, canon_script. intros H. apply andb_true_iff in H as [H _]. rewrite (region_not_script _ H). reflexivity. Qed.

Theorem li_tokens_canonical x : li_inv x = true -> canon_langid_toks (li_tokens x) = true.
Proof.
  intros Hinv. pose proof Hinv as H0.
  destruct x as [l sc rg vs]. unfold li_inv in H0. cbn [li_lang li_script li_region li_variants] in H0.
  apply andb_true_iff in H0 as [H0 Hv]. apply andb_true_iff in H0 as [H0 Hr]. apply andb_true_iff in H0 as [Hl Hs].
  unfold canon_langid_toks, li_tokens. cbn [li_lang li_script li_region li_variants].
  destruct (lang_text_tok _ Hl) as [Ht _]. rewrite Ht. cbn [andb].
  assert (Hlow : is_lower_tok (language_text l) = true).
  { unfold is_lower_tok. destruct l as [b|]; cbn [language_text canon_lang] in *; [|reflexivity].
    apply andb_true_iff in Hl as [Hl _]. apply andb_true_iff in Hl as [_ Hl]. exact Hl. }
  rewrite Hlow. cbn [andb].
  set (V := li_variants_list (mkLangId l sc rg vs)).
  assert (HV : forallb canon_variant V = true /\ ssortedb V = true).
  { unfold V, li_variants_list. cbn [li_variants]. destruct vs as [v|]; cbn [variants_inv] in Hv; [|auto].
    apply andb_true_iff in Hv as [Hv Hso]. apply andb_true_iff in Hv as [_ Hc]. auto. }
  destruct HV as [HV1 HV2].
  assert (HVs : match V with t :: r => if canon_script t then r else V | [] => [] end = V).
  { destruct V as [|t V']; [reflexivity|]. cbn [forallb] in HV1. apply andb_true_iff in HV1 as [H1 _].
    rewrite (canon_variant_not_script _ H1). reflexivity. }
  assert (HVr : match V with t :: r => if canon_region t then r else V | [] => [] end = V).
  { destruct V as [|t V']; [reflexivity|]. cbn [forallb] in HV1. apply andb_true_iff in HV1 as [H1 _].
    rewrite (canon_variant_not_region _ H1). reflexivity. }
  destruct sc as [s|]; cbn [opt_tok app opt_all] in *.
  - rewrite Hs. destruct rg as [r|]; cbn [opt_tok app opt_all] in *.
    + rewrite Hr. fold V. rewrite HV1, HV2. reflexivity.
    + fold V. rewrite HVr, HV1, HV2. reflexivity.
  - destruct rg as [r|]; cbn [opt_tok app opt_all] in *.
    + rewrite (canon_region_not_script _ Hr), Hr. fold V. rewrite HV1, HV2. reflexivity.
    + fold V. rewrite HVs, HVr, HV1, HV2. reflexivity.
Qed.

Theorem li_to_string_canonical x : li_inv x = true -> canon_langid_text (li_to_string x) = true.
Proof.
  intros H. unfold canon_langid_text, li_to_string.
  rewrite (join_alphabet _ (li_tokens_alnum _ H)).
  rewrite split_join; [|unfold li_tokens; congruence|apply li_tokens_nosep; exact H].
  apply li_tokens_canonical; exact H.
Qed.

(* ---------- C05 for the four subtag types ---------- *)
Theorem language_roundtrip l : canon_lang l = true -> language_from_bytes (language_text l) = Ok l.
Proof. intros H. rewrite language_spec. destruct (lang_text_tok _ H) as [-> ->]. reflexivity. Qed.
Theorem script_roundtrip s : canon_script s = true -> script_from_bytes s = Ok s.
Proof. unfold canon_script. intros H. apply andb_true_iff in H as [H1 H2]. apply beqb_eq in H2. rewrite script_spec, H1, H2. reflexivity. Qed.
Theorem region_roundtrip r : canon_region r = true -> region_from_bytes r = Ok r.
Proof. unfold canon_region. intros H. apply andb_true_iff in H as [H1 H2]. apply beqb_eq in H2. rewrite region_spec, H1.
  unfold spec_region_value. unfold norm_region in H2. rewrite H2. reflexivity. Qed.
Theorem variant_roundtrip v : canon_variant v = true -> variant_from_bytes v = Ok v.
Proof. unfold canon_variant. intros H. apply andb_true_iff in H as [H1 H2]. apply beqb_eq in H2. rewrite variant_spec, H1, H2. reflexivity. Qed.
(* and every accepted subtag is canonical, so parse . to_string . parse = parse *)
Theorem language_value_canon s v : language_from_bytes s = Ok v -> canon_lang v = true.
Proof. rewrite language_spec. destruct (lang_tok s) eqn:E; [|discriminate]. intros H. injection H as <-. apply lang_value_canon; exact E. Qed.
Theorem script_value_canon s v : script_from_bytes s = Ok v -> canon_script v = true.
Proof. rewrite script_spec. destruct (script_tok s) eqn:E; [|discriminate]. intros H. injection H as <-. apply title_canon; exact E. Qed.
Theorem region_value_canon s v : region_from_bytes s = Ok v -> canon_region v = true.
Proof. rewrite region_spec. destruct (region_tok s) eqn:E; [|discriminate]. intros H. injection H as <-. apply norm_region_canon; exact E. Qed.
Theorem variant_value_canon s v : variant_from_bytes s = Ok v -> canon_variant v = true.
Proof. rewrite variant_spec. destruct (variant_tok s) eqn:E; [|discriminate]. intros H. injection H as <-. apply lower_variant_canon; exact E. Qed.

Theorem li_canonicalize_idem s t : li_canonicalize s = Ok t -> li_canonicalize t = Ok t.
Proof.
  unfold li_canonicalize. destruct (langid_from_bytes s) as [v| | |] eqn:E; try discriminate.
  intros H. injection H as <-. rewrite (langid_roundtrip v (langid_parse_inv _ _ E)). reflexivity.
Qed.

(* ---------- C09 (langid): the result depends only on the case-folded, separator-folded text ---------- *)
Lemma fold_is_sep b : is_sep (fold_byte b) = is_sep b.
Proof. unfold fold_byte. destruct (is_sep b) eqn:E; [reflexivity|]. rewrite is_sep_to_lower. exact E. Qed.
Lemma split_aux_fold cur s :
  split_aux (map to_lower cur) (map fold_byte s) = map lower (split_aux cur s).
Proof.
  revert cur; induction s as [|b s IH]; intros cur; cbn [map split_aux].
  - unfold lower. rewrite map_rev. reflexivity.
  - rewrite fold_is_sep. destruct (is_sep b) eqn:E.
    + cbn [map]. unfold lower at 1. rewrite map_rev. f_equal. apply (IH []).
    + unfold fold_byte at 1. rewrite E. apply (IH (b :: cur)).
Qed.
Lemma split_fold s : split (map fold_byte s) = map lower (split s).
Proof. apply (split_aux_fold [] s). Qed.

Lemma to_upper_lower c : to_upper (to_lower c) = to_upper c.
Proof. unfold to_upper, to_lower, is_upper, is_lower, in_range.
  destruct ((65 <=? c) && (c <=? 90)) eqn:E1.
  - assert ((97 <=? c + 32) && (c + 32 <=? 122) = true) as -> by lia. assert ((97 <=? c) && (c <=? 122) = false) as -> by lia. lia.
  - reflexivity. Qed.
Lemma title_lower t : title (lower t) = title t.
Proof. destruct t as [|c r]; [reflexivity|]. cbn [lower map title]. fold (lower r). rewrite to_upper_lower, lower_idem. reflexivity. Qed.
Lemma upper_lower t : upper (lower t) = upper t.
Proof. unfold upper, lower. rewrite map_map. apply map_ext. apply to_upper_lower. Qed.
Lemma lower_forallb_digit t : forallb is_digit (lower t) = forallb is_digit t.
Proof.
  induction t as [|b t IH]; cbn [lower map forallb]; [reflexivity|]. fold (lower t). rewrite IH. f_equal.
  unfold to_lower, is_digit, is_upper, in_range. destruct ((65 <=? b) && (b <=? 90)) eqn:E; lia.
Qed.
Lemma lang_tok_lower t : lang_tok (lower t) = lang_tok t.
Proof. unfold lang_tok, len_in. rewrite lower_forallb_alpha, lower_length. reflexivity. Qed.
Lemma script_tok_lower t : script_tok (lower t) = script_tok t.
Proof. unfold script_tok. rewrite lower_forallb_alpha, lower_length. reflexivity. Qed.
Lemma region_tok_lower t : region_tok (lower t) = region_tok t.
Proof. unfold region_tok. rewrite lower_forallb_alpha, lower_forallb_digit, lower_length. reflexivity. Qed.
Lemma is_digit_lower c : is_digit (to_lower c) = is_digit c.
Proof. unfold to_lower, is_digit, is_upper, in_range. destruct ((65 <=? c) && (c <=? 90)) eqn:E; lia. Qed.
Lemma variant_tok_lower t : variant_tok (lower t) = variant_tok t.
Proof.
  unfold variant_tok, len_in. rewrite lower_forallb_alnum, lower_length.
  destruct t as [|c r]; [reflexivity|]. cbn [lower map]. fold (lower r). rewrite lower_forallb_alnum, lower_length, is_digit_lower. reflexivity.
Qed.
Lemma norm_region_lower t : region_tok t = true -> norm_region (lower t) = norm_region t.
Proof.
  unfold norm_region. rewrite lower_length. destruct (length t =? 2)%nat eqn:E; [intros _; apply upper_lower|].
  unfold region_tok. rewrite E, andb_false_r, orb_false_l. intros H. apply andb_true_iff in H as [H _].
  unfold lower. rewrite <- (map_id t) at 2. apply map_ext_in. intros b Hb. rewrite forallb_forall in H. specialize (H _ Hb).
  unfold to_lower, is_digit, is_upper, in_range in *. destruct ((65 <=? b) && (b <=? 90)) eqn:E2; lia.
Qed.
Lemma spec_language_value_lower t : spec_language_value (lower t) = spec_language_value t.
Proof. unfold spec_language_value. rewrite lower_idem. reflexivity. Qed.

Lemma take_while_map_lower toks :
  take_while variant_tok (map lower toks) = map lower (take_while variant_tok toks)
  /\ drop_while variant_tok (map lower toks) = map lower (drop_while variant_tok toks).
Proof.
  induction toks as [|t toks [IH1 IH2]]; cbn [map take_while drop_while]; [auto|].
  rewrite variant_tok_lower. destruct (variant_tok t); cbn [map]; [rewrite IH1, IH2|]; auto.
Qed.
Lemma spec_variants_lower vs : spec_variants (map lower vs) = spec_variants vs.
Proof. destruct vs as [|v vs]; [reflexivity|]. unfold spec_variants. cbn [map]. rewrite lower_idem, map_map.
  f_equal. f_equal. f_equal. f_equal. apply map_ext. apply lower_idem. Qed.

Definition map_rest (f : bytes -> bytes) (o : option (langid * list bytes)) : option (langid * list bytes) :=
  match o with Some (v, rem) => Some (v, map f rem) | None => None end.

Theorem spec_langid_prefix_lower toks :
  spec_langid_prefix (map lower toks) = map_rest lower (spec_langid_prefix toks).
Proof.
  unfold spec_langid_prefix. destruct toks as [|l rest]; [reflexivity|]. cbn [map].
  rewrite lang_tok_lower. destruct (lang_tok l); [|reflexivity].
  rewrite spec_language_value_lower.
  assert (Hs : take_script (map lower rest) = let (a, b) := take_script rest in (a, map lower b)).
  { destruct rest as [|t r]; [reflexivity|]. cbn [map take_script]. rewrite script_tok_lower, title_lower.
    destruct (script_tok t); reflexivity. }
  rewrite Hs. destruct (take_script rest) as [sc r1].
  assert (Hr : take_region (map lower r1) = let (a, b) := take_region r1 in (a, map lower b)).
  { destruct r1 as [|t r]; [reflexivity|]. cbn [map take_region]. rewrite region_tok_lower.
    destruct (region_tok t) eqn:E; [rewrite (norm_region_lower _ E)|]; reflexivity. }
  rewrite Hr. destruct (take_region r1) as [rg r2].
  destruct (take_while_map_lower r2) as [-> ->]. rewrite spec_variants_lower. reflexivity.
Qed.

Theorem spec_langid_lower toks : spec_langid (map lower toks) = spec_langid toks.
Proof.
  unfold spec_langid. destruct toks as [|t r]; [reflexivity|].
  change (map lower (t :: r)) with (lower t :: map lower r) at 1.
  change (lower t :: map lower r) with (map lower (t :: r)). rewrite spec_langid_prefix_lower.
  destruct (spec_langid_prefix (t :: r)) as [[v rem]|]; cbn [map_rest]; [|reflexivity].
  destruct rem; reflexivity.
Qed.
Lemma spec_langid_err_lower toks : spec_langid_err (map lower toks) = spec_langid_err toks.
Proof. destruct toks as [|t r]; [reflexivity|]. cbn [map spec_langid_err]. rewrite lang_tok_lower. reflexivity. Qed.

(* two inputs with the same folded text (case, '_' vs '-') give the same result: both fail with the
   same error, or both succeed with the same value *)
Theorem langid_fold_invariant s s' :
  map fold_byte s = map fold_byte s' -> langid_from_bytes s = langid_from_bytes s'.
Proof.
  intros H. rewrite !langid_from_bytes_spec.
  rewrite <- (spec_langid_lower (split s)), <- (spec_langid_lower (split s')).
  rewrite <- (spec_langid_err_lower (split s)), <- (spec_langid_err_lower (split s')).
  rewrite <- !split_fold, H. reflexivity.
Qed.

(* order / repetition of variants is irrelevant: only the set of (case-folded) variants matters *)
Theorem spec_variants_same_set vs vs' :
  (forall y, In y (map lower vs) <-> In y (map lower vs')) -> spec_variants vs = spec_variants vs'.
Proof.
  intros H. unfold spec_variants. destruct vs as [|a r], vs' as [|b r']; try reflexivity.
  - exfalso. apply (H (lower b)). left; reflexivity.
  - exfalso. apply (H (lower a)). left; reflexivity.
  - f_equal. apply (canon_same_set _ _ H).
Qed.
