(* Sites.v — the regenerated panic-site inventory (gen/PanicSites.v) against what the model represents.
   A new unwrap / index / insert-at-index in the sources fails this obligation.  (The cfg(feature) inventory is in
   CfgSitesProofs.v: the two obligations fail independently.) *)
From Coq Require Import List String Bool Ascii.
Import ListNotations.
From UL Require Import PanicSites.
Open Scope string_scope.

Definition site := (string * string * string * string)%type.
Definition site_eqb (a b : site) : bool :=
  match a, b with
  | (a1, a2, a3, a4), (b1, b2, b3, b4) => String.eqb a1 b1 && String.eqb a2 b2 && String.eqb a3 b3 && String.eqb a4 b4
  end.

(* every panic-capable expression of the two implementation crates, and how the model represents it *)
Definition modelled_panic_sites : list site := [
  (* Likely.lang_from_parts: explicit `Panic 2` when the table value has no language; unreachable by C07_values_full_extend *)
  ("unic-langid-impl/src/likelysubtags/mod.rs", "lang_from_parts", "unwrap", ".unwrap()");
  (* TABLE[r] with r from binary_search_by_key(..).ok(): in bounds by the contract of binary_search; modelled as assoc *)
  ("unic-langid-impl/src/likelysubtags/mod.rs", "maximize", "index", "tables::LANG_ONLY[_]");
  ("unic-langid-impl/src/likelysubtags/mod.rs", "maximize", "index", "tables::LANG_REGION[_]");
  ("unic-langid-impl/src/likelysubtags/mod.rs", "maximize", "index", "tables::LANG_SCRIPT[_]");
  ("unic-langid-impl/src/likelysubtags/mod.rs", "maximize", "index", "tables::REGION_ONLY[_]");
  ("unic-langid-impl/src/likelysubtags/mod.rs", "maximize", "index", "tables::SCRIPT_ONLY[_]");
  ("unic-langid-impl/src/likelysubtags/mod.rs", "maximize", "index", "tables::SCRIPT_REGION[_]");
  (* Subtags.variant_from_bytes: `Panic 1`, behind the slen == 4 guard *)
  ("unic-langid-impl/src/subtags/variant.rs", "from_bytes", "index", "v[0]");
  (* Vec::remove / insert at the index binary_search returned: in bounds by contract (Ops.bsearch) *)
  ("unic-locale-impl/src/extensions/private.rs", "remove_tag", "vec_remove", ".remove(idx)");
  ("unic-locale-impl/src/extensions/unicode.rs", "remove_attribute", "vec_remove", ".remove(idx)");
  ("unic-locale-impl/src/extensions/unicode.rs", "set_attribute", "vec_insert", ".insert(idx,");
  (* Ext.parse_tkey: `Panic 5` / `Panic 6`, behind the len != 2 guard *)
  ("unic-locale-impl/src/extensions/transform.rs", "parse_tkey", "index", "key[0]");
  ("unic-locale-impl/src/extensions/transform.rs", "parse_tkey", "index", "key[1]");
  (* Ext.tkey_shape: `slen == 2 && subtag[0].. && subtag[1]..` modelled as a match on a two-element list *)
  ("unic-locale-impl/src/extensions/transform.rs", "try_from_iter", "index", "subtag[0]");
  ("unic-locale-impl/src/extensions/transform.rs", "try_from_iter", "index", "subtag[1]");
  (* Ext.parse_key: `Panic 3` / `Panic 4`, behind the len != KEY_LENGTH guard *)
  ("unic-locale-impl/src/extensions/unicode.rs", "parse_key", "index", "key[0]");
  ("unic-locale-impl/src/extensions/unicode.rs", "parse_key", "index", "key[1]")
].

(* coverage is by (file, kind, text) WITH MULTIPLICITY, not by the enclosing function: a panic-capable expression
   may move into a helper function of the same file (a common harmless refactor) without disturbing the
   obligation, but one more occurrence of it - a second `.unwrap()`, another `v[0]`, another `.insert(idx,` - is
   not covered by the model and fails it *)
Definition same_site (a b : site) : bool :=
  match a, b with
  | (a1, _, a3, a4), (b1, _, b3, b4) => String.eqb a1 b1 && String.eqb a3 b3 && String.eqb a4 b4
  end.
Definition count_site (s : site) (l : list site) : nat := List.length (filter (same_site s) l).
Definition panic_sites_covered : bool :=
  forallb (fun s => Nat.leb (count_site s src_panic_sites) (count_site s modelled_panic_sites)) src_panic_sites.
Lemma sites_covered : panic_sites_covered = true.
Proof. vm_compute. reflexivity. Qed.
(* the obligation is not vacuous: an extra occurrence, or an expression the model does not know, fails it *)
Example sites_rule :
  let extra := ("unic-langid-impl/src/likelysubtags/mod.rs", "minimize", "unwrap", ".unwrap()") in
  let moved := ("unic-langid-impl/src/likelysubtags/mod.rs", "some_helper", "unwrap", ".unwrap()") in
  Nat.leb (count_site extra (extra :: src_panic_sites)) (count_site extra modelled_panic_sites) = false
  /\ Nat.leb (count_site moved [moved]) (count_site moved modelled_panic_sites) = true
  /\ count_site ("unic-locale-impl/src/extensions/private.rs", "add_tag", "vec_insert", ".insert(idx,") modelled_panic_sites = 0%nat.
Proof. vm_compute. repeat split; reflexivity. Qed.

