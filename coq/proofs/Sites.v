(* Sites.v — the regenerated source inventories (gen/PanicSites.v, gen/CfgSites.v) against what the
   model represents.  A new unwrap / index / cfg(feature) in the sources fails these obligations. *)
From Coq Require Import List String Bool Ascii.
Import ListNotations.
From UL Require Import PanicSites CfgSites.
Open Scope string_scope.

Definition site := (string * string * string * string)%type.
Definition site_eqb (a b : site) : bool :=
  match a, b with
  | (a1, a2, a3, a4), (b1, b2, b3, b4) => String.eqb a1 b1 && String.eqb a2 b2 && String.eqb a3 b3 && String.eqb a4 b4
  end.

(* every panic-capable expression of the two implementation crates, and how the model represents it *)
Definition modelled_panic_sites : list site := [
  (* Likely.lang_from_parts: explicit `Panic 2` when the table value has no language; unreachable by C07_values_full_extend *)
  ("unic-langid-impl/src/likelysubtags/mod.rs", "lang_from_parts", "unwrap", ".unwrap()");
  (* TABLE[r] with r from binary_search_by_key(..).ok(): in bounds by the contract of binary_search; modelled as assoc *)
  ("unic-langid-impl/src/likelysubtags/mod.rs", "maximize", "index", "tables::LANG_ONLY[r]");
  ("unic-langid-impl/src/likelysubtags/mod.rs", "maximize", "index", "tables::LANG_REGION[r]");
  ("unic-langid-impl/src/likelysubtags/mod.rs", "maximize", "index", "tables::LANG_SCRIPT[r]");
  ("unic-langid-impl/src/likelysubtags/mod.rs", "maximize", "index", "tables::REGION_ONLY[r]");
  ("unic-langid-impl/src/likelysubtags/mod.rs", "maximize", "index", "tables::SCRIPT_ONLY[r]");
  ("unic-langid-impl/src/likelysubtags/mod.rs", "maximize", "index", "tables::SCRIPT_REGION[r]");
  (* Subtags.variant_from_bytes: `Panic 1`, behind the slen == 4 guard *)
  ("unic-langid-impl/src/subtags/variant.rs", "from_bytes", "index", "v[0]");
  (* Vec::remove / insert at the index binary_search returned: in bounds by contract (Ops.bsearch) *)
  ("unic-locale-impl/src/extensions/private.rs", "remove_tag", "vec_remove", ".remove(idx)");
  ("unic-locale-impl/src/extensions/unicode.rs", "remove_attribute", "vec_remove", ".remove(idx)");
  ("unic-locale-impl/src/extensions/unicode.rs", "set_attribute", "vec_insert", ".insert(idx,");
  (* Ext.parse_tkey: `Panic 5` / `Panic 6`, behind the len != 2 guard *)
  ("unic-locale-impl/src/extensions/transform.rs", "parse_tkey", "index", "key[0]");
  ("unic-locale-impl/src/extensions/transform.rs", "parse_tkey", "index", "key[1]");
  (* Ext.tkey_shape: `slen == 2 && subtag[0].. && subtag[1]..` modelled as a match on a two-element list *)
  ("unic-locale-impl/src/extensions/transform.rs", "try_from_iter", "index", "subtag[0]");
  ("unic-locale-impl/src/extensions/transform.rs", "try_from_iter", "index", "subtag[1]");
  (* Ext.parse_key: `Panic 3` / `Panic 4`, behind the len != KEY_LENGTH guard *)
  ("unic-locale-impl/src/extensions/unicode.rs", "parse_key", "index", "key[0]");
  ("unic-locale-impl/src/extensions/unicode.rs", "parse_key", "index", "key[1]")
].

Definition panic_sites_covered : bool :=
  forallb (fun s => existsb (site_eqb s) modelled_panic_sites) src_panic_sites.
Lemma sites_covered : panic_sites_covered = true.
Proof. vm_compute. reflexivity. Qed.

(* a conditional-compilation site is additive when it guards a whole item (module, function, impl,
   use, macro, other item); the only statement-level site allowed is the documented refinement inside
   character_direction; cfg(unic_locale_verif) is the verification hook; a cargo feature may only
   switch on optional dependencies or features of dependencies *)
Fixpoint no_cfg_not (s : string) : bool :=
  match s with
  | EmptyString => true
  | String c r => negb (prefix "not(" s) && no_cfg_not r
  end.
(* cargo features: `fn` = the feature's name, `expr` = the comma-separated list of what it enables.  The only
   feature with a behavioural effect is `likelysubtags`; no OTHER feature may switch it on, neither locally
   ("likelysubtags") nor in a dependency ("dep/likelysubtags"): enabling serde or macros must not change results *)
Fixpoint split_comma_aux (cur : string) (s : string) : list string :=
  match s with
  | EmptyString => [cur]
  | String c r => if Ascii.eqb c ","%char then cur :: split_comma_aux "" r else split_comma_aux (cur ++ String c "") r
  end.
Definition split_comma (s : string) : list string := split_comma_aux "" s.
Fixpoint after_slash (s : string) : string :=
  match s with
  | EmptyString => ""
  | String c r => if Ascii.eqb c "/"%char then r else after_slash r
  end.
Fixpoint has_slash (s : string) : bool :=
  match s with EmptyString => false | String c r => Ascii.eqb c "/"%char || has_slash r end.
Definition item_feature (item : string) : string := if has_slash item then after_slash item else item.
Definition cargo_feature_ok (name items : string) : bool :=
  String.eqb name "likelysubtags"
  || forallb (fun it => negb (String.eqb (item_feature it) "likelysubtags")) (split_comma items).

Definition cfg_site_ok (s : site) : bool :=
  match s with
  | (file, fn, expr, kind) =>
    if String.eqb kind "cargo-feature" then cargo_feature_ok fn expr
    else if String.eqb expr "unic_locale_verif" then String.eqb kind "mod"
    else
      no_cfg_not expr &&
      (String.eqb kind "mod" || String.eqb kind "fn" || String.eqb kind "impl" || String.eqb kind "use"
       || String.eqb kind "macro" || String.eqb kind "item"
       || (String.eqb kind "stmt" && String.eqb file "unic-langid-impl/src/lib.rs"
           && String.eqb fn "character_direction" && String.eqb expr "feature=""likelysubtags"""))
  end.
Definition cfg_sites_additive : bool := forallb cfg_site_ok cfg_sites.
Lemma sites_additive : cfg_sites_additive = true.
Proof. vm_compute. reflexivity. Qed.
(* the rule is not vacuous *)
Example cargo_feature_rule :
  cargo_feature_ok "serde" "unic-langid-impl/serde" = true /\ cargo_feature_ok "likelysubtags" "unic-langid-impl/likelysubtags" = true
  /\ cargo_feature_ok "serde" "unic-langid-impl/serde,unic-langid-impl/likelysubtags" = false
  /\ cargo_feature_ok "macros" "unic-langid-macros,likelysubtags" = false /\ cargo_feature_ok "binary" "serde,serde_json" = true.
Proof. vm_compute. repeat split; reflexivity. Qed.
