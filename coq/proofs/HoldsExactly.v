(* HoldsExactly.v — C03: "the parsed value holds exactly the input's subtags in normalised form", on the relational
   grammar: for a well-formed identifier `toks` with value `v`, every input subtag reappears (up to letter case) among
   the subtags the value prints, except keyword / tfield values named `true` (which the canonical form omits); and
   the value prints no subtag that does not come from the input.  Nothing is dropped, nothing is invented. *)
From UL Require Import Bytes Subtags LangId Ext Grammar LangIdSpec LocaleInv AbstractLocale LocaleSpec LocaleGrammar
                       BytesProofs SortProofs SplitProofs LangIdProofs CanonProofs ExtProofs KmapProofs RoundTrip KvProofs LocaleSpecProofs StringLevel
                       LocaleGrammarProofs.
From Coq Require Import Lia ZifyBool ZifyN.
Open Scope N_scope.
Arguments N.eqb : simpl never.
Arguments N.leb : simpl never.

(* every token of A reappears in B up to letter case *)
Definition covers (A B : list bytes) : Prop := forall a, In a A -> exists b, In b B /\ lower b = lower a.
(* ... unless it is (in any case) the word `true` *)
Definition covers_but_true (A B : list bytes) : Prop :=
  forall a, In a A -> lower a = true_bytes \/ exists b, In b B /\ lower b = lower a.

Lemma covers_app A1 A2 B : covers A1 B -> covers A2 B -> covers (A1 ++ A2) B.
Proof. intros H1 H2 a Ha. apply in_app_or in Ha as [Ha|Ha]; auto. Qed.
Lemma cbt_app A1 A2 B : covers_but_true A1 B -> covers_but_true A2 B -> covers_but_true (A1 ++ A2) B.
Proof. intros H1 H2 a Ha. apply in_app_or in Ha as [Ha|Ha]; auto. Qed.
Lemma covers_weaken_l A B C : covers A B -> covers A (C ++ B).
Proof. intros H a Ha. destruct (H a Ha) as (b & Hb & E). exists b. split; [apply in_or_app; auto|exact E]. Qed.
Lemma covers_weaken_r A B C : covers A B -> covers A (B ++ C).
Proof. intros H a Ha. destruct (H a Ha) as (b & Hb & E). exists b. split; [apply in_or_app; auto|exact E]. Qed.
Lemma cbt_weaken_l A B C : covers_but_true A B -> covers_but_true A (C ++ B).
Proof. intros H a Ha. destruct (H a Ha) as [T|(b & Hb & E)]; [auto|right]. exists b. split; [apply in_or_app; auto|exact E]. Qed.
Lemma cbt_weaken_r A B C : covers_but_true A B -> covers_but_true A (B ++ C).
Proof. intros H a Ha. destruct (H a Ha) as [T|(b & Hb & E)]; [auto|right]. exists b. split; [apply in_or_app; auto|exact E]. Qed.
Lemma covers_cbt A B : covers A B -> covers_but_true A B.
Proof. intros H a Ha. right. auto. Qed.
Lemma covers_cons a A b B : lower b = lower a -> covers A B -> covers (a :: A) (b :: B).
Proof.
  intros E H x [<-|Hx]; [exists b; split; [left; reflexivity|exact E]|].
  destruct (H x Hx) as (y & Hy & Ey). exists y. split; [right; exact Hy|exact Ey].
Qed.
Lemma cbt_cons a A b B : lower b = lower a -> covers_but_true A B -> covers_but_true (a :: A) (b :: B).
Proof.
  intros E H x [<-|Hx]; [right; exists b; split; [left; reflexivity|exact E]|].
  destruct (H x Hx) as [T|(y & Hy & Ey)]; [auto|right]. exists y. split; [right; exact Hy|exact Ey].
Qed.

Lemma to_lower_upper c : to_lower (to_upper c) = to_lower c.
Proof. unfold to_lower, to_upper, is_upper, is_lower, in_range.
  destruct ((97 <=? c) && (c <=? 122)) eqn:E1.
  - assert ((65 <=? c - 32) && (c - 32 <=? 90) = true) as -> by lia. assert ((65 <=? c) && (c <=? 90) = false) as -> by lia. lia.
  - reflexivity. Qed.
Lemma lower_upper s : lower (upper s) = lower s.
Proof. unfold lower, upper. rewrite map_map. apply map_ext. apply to_lower_upper. Qed.
Lemma lower_title s : lower (title s) = lower s.
Proof. destruct s as [|c r]; [reflexivity|]. cbn [title lower map]. fold (lower r). fold (lower (lower r)). rewrite to_lower_upper, lower_idem. reflexivity. Qed.
Lemma lower_norm_region r : lower (norm_region r) = lower r.
Proof. unfold norm_region. destruct (length r =? 2)%nat; [apply lower_upper|reflexivity]. Qed.
Lemma lower_language_text l : lower (language_text (spec_language_value l)) = lower l.
Proof.
  unfold spec_language_value. destruct (beqb (lower l) und_b) eqn:E; cbn [language_text].
  - apply beqb_eq in E. rewrite E. reflexivity.
  - apply lower_idem.
Qed.

(* a list and its lower-cased, sorted, de-duplicated form cover each other *)
Lemma canon_lower_covers l : covers l (dedup (sort (map lower l))) /\ covers (dedup (sort (map lower l))) l.
Proof.
  split; intros a Ha.
  - exists (lower a). split; [apply (proj2 (canon_In (lower a) (map lower l))); apply in_map; exact Ha|apply lower_idem].
  - apply (proj1 (canon_In a (map lower l))) in Ha. apply in_map_iff in Ha as (x & <- & Hx). exists x. split; [exact Hx|symmetry; apply lower_idem].
Qed.
Lemma sort_lower_covers l : covers l (sort (map lower l)) /\ covers (sort (map lower l)) l.
Proof.
  split; intros a Ha.
  - exists (lower a). split; [apply (proj2 (sort_In (lower a) (map lower l))); apply in_map; exact Ha|apply lower_idem].
  - apply (proj1 (sort_In a (map lower l))) in Ha. apply in_map_iff in Ha as (x & <- & Hx). exists x. split; [exact Hx|symmetry; apply lower_idem].
Qed.

(* groups: keys are kept, values are kept unless named `true`; nothing new appears *)
Lemma drop_true_In x l : In x (drop_true l) <-> In x l /\ beqb x true_bytes = false.
Proof. unfold drop_true. rewrite filter_In. change [116; 114; 117; 101] with true_bytes. rewrite negb_true_iff. reflexivity. Qed.

Lemma groups_kept gs : covers_but_true (flat_map group_tokens gs) (kmap_tokens (kv_sort (map norm_group gs))).
Proof.
  intros a Ha. apply in_flat_map in Ha as (g & Hg & Ha). destruct g as [k vs]. cbn [group_tokens fst snd] in Ha.
  assert (Hn : In (norm_group (k, vs)) (kv_sort (map norm_group gs))) by (apply (proj2 (kv_sort_In _ _)); apply in_map; exact Hg).
  destruct Ha as [<-|Ha].
  - right. exists (lower k). split; [|apply lower_idem]. unfold kmap_tokens. apply in_flat_map. exists (norm_group (k, vs)). split; [exact Hn|left; reflexivity].
  - destruct (beqb (lower a) true_bytes) eqn:E; [left; apply beqb_eq; exact E|right].
    exists (lower a). split; [|apply lower_idem]. unfold kmap_tokens. apply in_flat_map. exists (norm_group (k, vs)). split; [exact Hn|].
    right. cbn [norm_group fst snd]. apply (proj2 (drop_true_In _ _)). split; [apply in_map; exact Ha|exact E].
Qed.
Lemma groups_nothing_new gs : covers (kmap_tokens (kv_sort (map norm_group gs))) (flat_map group_tokens gs).
Proof.
  intros a Ha. unfold kmap_tokens in Ha. apply in_flat_map in Ha as ([k vs] & Hkv & Ha). apply (proj1 (kv_sort_In _ _)) in Hkv.
  apply in_map_iff in Hkv as ([k0 vs0] & E & Hg). cbn [norm_group fst snd] in E. injection E as <- <-.
  cbn [fst snd] in Ha. destruct Ha as [<-|Ha].
  - exists k0. split; [apply in_flat_map; exists (k0, vs0); split; [exact Hg|left; reflexivity]|symmetry; apply lower_idem].
  - apply (proj1 (drop_true_In _ _)) in Ha as [Ha _]. apply in_map_iff in Ha as (v & <- & Hv).
    exists v. split; [apply in_flat_map; exists (k0, vs0); split; [exact Hg|right; exact Hv]|symmetry; apply lower_idem].
Qed.

(* ---------------------------------------------------------------- the pieces *)
Lemma langid_tokens_cover tl v : WFLangIdT tl v -> covers tl (li_tokens v) /\ covers (li_tokens v) tl.
Proof.
  intros [l sc rg vs Hl Hs Hr Hv]. unfold li_tokens, li_variants_list. cbn [li_lang li_script li_region li_variants].
  assert (V : covers vs (match spec_variants vs with Some x => x | None => [] end)
              /\ covers (match spec_variants vs with Some x => x | None => [] end) vs).
  { unfold spec_variants. destruct vs as [|v0 vs']; [split; intros a []|]. exact (canon_lower_covers (v0 :: vs')). }
  destruct V as [V1 V2].
  assert (S1 : covers (opt_tok sc) (opt_tok (option_map title sc)) /\ covers (opt_tok (option_map title sc)) (opt_tok sc)).
  { destruct sc as [s|]; cbn [opt_tok option_map]; [|split; intros a []]. split; apply covers_cons; try (intros a []);
      [apply lower_title|symmetry; apply lower_title]. }
  assert (R1 : covers (opt_tok rg) (opt_tok (option_map norm_region rg)) /\ covers (opt_tok (option_map norm_region rg)) (opt_tok rg)).
  { destruct rg as [r|]; cbn [opt_tok option_map]; [|split; intros a []]. split; apply covers_cons; try (intros a []);
      [apply lower_norm_region|symmetry; apply lower_norm_region]. }
  destruct S1 as [S1 S2]. destruct R1 as [R1 R2]. split.
  - apply covers_cons; [apply lower_language_text|]. apply covers_app; [apply covers_weaken_r; exact S1|].
    apply covers_weaken_l. apply covers_app; [apply covers_weaken_r; exact R1|apply covers_weaken_l; exact V1].
  - apply covers_cons; [symmetry; apply lower_language_text|]. apply covers_app; [apply covers_weaken_r; exact S2|].
    apply covers_weaken_l. apply covers_app; [apply covers_weaken_r; exact R2|apply covers_weaken_l; exact V2].
Qed.

Lemma u_nonempty body u : WFU body u -> u_is_empty u = false.
Proof.
  intros [attrs kws Ha Hk Hne Hnd]. unfold u_is_empty. cbn [u_keywords u_attrs].
  destruct kws as [|g kws].
  - cbn [map kv_sort]. destruct Hne as [Hne|Hne]; [|congruence]. destruct attrs as [|a attrs]; [congruence|].
    destruct (dedup (sort (map lower (a :: attrs)))) eqn:E; [|reflexivity].
    exfalso. assert (In (lower a) (canon (map lower (a :: attrs)))) by (apply (proj2 (canon_In _ _)); left; reflexivity).
    unfold canon in H. rewrite E in H. destruct H.
  - destruct (kv_sort (map norm_group (g :: kws))) eqn:E; [|reflexivity].
    exfalso. assert (In (norm_group g) (kv_sort (map norm_group (g :: kws)))) by (apply (proj2 (kv_sort_In _ _)); left; reflexivity).
    rewrite E in H. destruct H.
Qed.
Lemma t_nonempty body t : WFT body t -> t_is_empty t = false.
Proof.
  intros [tl v fields W Hf Hnd|fields Hne Hf Hnd]; unfold t_is_empty; cbn [t_lang t_fields]; [reflexivity|].
  destruct fields as [|g fields]; [congruence|].
  destruct (kv_sort (map norm_group (g :: fields))) eqn:E; [|reflexivity].
  exfalso. assert (In (norm_group g) (kv_sort (map norm_group (g :: fields)))) by (apply (proj2 (kv_sort_In _ _)); left; reflexivity).
  rewrite E in H. destruct H.
Qed.

Lemma single_lower c s : single_is c s = true -> lower s = [c].
Proof. destruct s as [|b [|b' r]]; cbn [single_is]; intros H; try discriminate. cbn [lower map]. f_equal. lia. Qed.

Lemma u_tokens_cover su body u : single_is 117 su = true -> WFU body u ->
  covers_but_true (su :: body) (u_tokens u) /\ covers (u_tokens u) (su :: body).
Proof.
  intros Hs W. unfold u_tokens. rewrite (u_nonempty _ _ W). destruct W as [attrs kws Ha Hk Hne Hnd]. cbn [u_keywords u_attrs].
  destruct (canon_lower_covers attrs) as [A1 A2]. split.
  - apply cbt_cons; [rewrite (single_lower _ _ Hs); reflexivity|]. apply cbt_app.
    + apply cbt_weaken_r. apply covers_cbt. exact A1.
    + apply cbt_weaken_l. apply groups_kept.
  - apply covers_cons; [rewrite (single_lower _ _ Hs); reflexivity|]. apply covers_app.
    + apply covers_weaken_r. exact A2.
    + apply covers_weaken_l. apply groups_nothing_new.
Qed.

Lemma t_tokens_cover st body t : single_is 116 st = true -> WFT body t ->
  covers_but_true (st :: body) (t_tokens t) /\ covers (t_tokens t) (st :: body).
Proof.
  intros Hs W. unfold t_tokens. rewrite (t_nonempty _ _ W).
  destruct W as [tl v fields Wl Hf Hnd|fields Hne Hf Hnd]; cbn [t_lang t_fields].
  - destruct (langid_tokens_cover _ _ Wl) as [L1 L2]. split.
    + apply cbt_cons; [rewrite (single_lower _ _ Hs); reflexivity|]. apply cbt_app.
      * apply cbt_weaken_r. apply covers_cbt. exact L1.
      * apply cbt_weaken_l. apply groups_kept.
    + apply covers_cons; [rewrite (single_lower _ _ Hs); reflexivity|]. apply covers_app.
      * apply covers_weaken_r. exact L2.
      * apply covers_weaken_l. apply groups_nothing_new.
  - cbn [app]. split.
    + apply cbt_cons; [rewrite (single_lower _ _ Hs); reflexivity|]. apply groups_kept.
    + apply covers_cons; [rewrite (single_lower _ _ Hs); reflexivity|]. apply groups_nothing_new.
Qed.

Lemma x_tokens_cover px x : WFX px x -> covers px (x_tokens x) /\ covers (x_tokens x) px.
Proof.
  intros [|sx tags Hs Hne Hp]; [split; intros a []|]. unfold x_tokens.
  destruct (sort_lower_covers tags) as [A1 A2].
  destruct (sort (map lower tags)) as [|y ys] eqn:E.
  - exfalso. destruct tags as [|t0 tags']; [congruence|].
    assert (In (lower t0) (sort (map lower (t0 :: tags')))) by (apply (proj2 (sort_In _ _)); left; reflexivity). rewrite E in H. destruct H.
  - split; apply covers_cons; try (rewrite (single_lower _ _ Hs); reflexivity); assumption.
Qed.

Lemma ut_tokens_cover ut u t : WFUT ut u t ->
  covers_but_true ut (t_tokens t ++ u_tokens u) /\ covers (t_tokens t ++ u_tokens u) ut.
Proof.
  intros [|su ub u' Hsu Wu|st tb t' Hst Wt|su ub u' st tb t' Hsu Wu Hst Wt|su ub u' st tb t' Hsu Wu Hst Wt].
  - split; [intros a []|]. cbn. intros a [].
  - destruct (u_tokens_cover _ _ _ Hsu Wu) as [A B]. change (t_tokens text_default) with (@nil bytes). cbn [app]. auto.
  - destruct (t_tokens_cover _ _ _ Hst Wt) as [A B]. change (u_tokens uext_default) with (@nil bytes). rewrite app_nil_r. auto.
  - destruct (u_tokens_cover _ _ _ Hsu Wu) as [A B]. destruct (t_tokens_cover _ _ _ Hst Wt) as [A' B'].
    change (su :: ub ++ st :: tb) with ((su :: ub) ++ (st :: tb)). split.
    + apply cbt_app; [apply cbt_weaken_l; exact A|apply cbt_weaken_r; exact A'].
    + apply covers_app; [apply covers_weaken_l; exact B'|apply covers_weaken_r; exact B].
  - destruct (u_tokens_cover _ _ _ Hsu Wu) as [A B]. destruct (t_tokens_cover _ _ _ Hst Wt) as [A' B'].
    change (st :: tb ++ su :: ub) with ((st :: tb) ++ (su :: ub)). split.
    + apply cbt_app; [apply cbt_weaken_r; exact A'|apply cbt_weaken_l; exact A].
    + apply covers_app; [apply covers_weaken_r; exact B'|apply covers_weaken_l; exact B].
Qed.

(* ---------------------------------------------------------------- the whole identifier *)
Theorem value_holds_every_subtag toks v : WFLocale toks v -> covers_but_true toks (loc_tokens v).
Proof.
  intros [idt id ut u t px x Wid Wut Wx]. unfold loc_tokens, ext_tokens. cbn [loc_id loc_ext e_unicode e_transform e_private].
  destruct (langid_tokens_cover _ _ Wid) as [L _]. destruct (ut_tokens_cover _ _ _ Wut) as [U _]. destruct (x_tokens_cover _ _ Wx) as [X _].
  apply cbt_app; [apply cbt_weaken_r; apply covers_cbt; exact L|]. apply cbt_weaken_l. rewrite app_assoc.
  apply cbt_app; [apply cbt_weaken_r; exact U|apply cbt_weaken_l; apply covers_cbt; exact X].
Qed.
Theorem value_holds_nothing_else toks v : WFLocale toks v -> covers (loc_tokens v) toks.
Proof.
  intros [idt id ut u t px x Wid Wut Wx]. unfold loc_tokens, ext_tokens. cbn [loc_id loc_ext e_unicode e_transform e_private].
  destruct (langid_tokens_cover _ _ Wid) as [_ L]. destruct (ut_tokens_cover _ _ _ Wut) as [_ U]. destruct (x_tokens_cover _ _ Wx) as [_ X].
  apply covers_app; [apply covers_weaken_r; exact L|]. apply covers_weaken_l. rewrite app_assoc.
  apply covers_app; [apply covers_weaken_r; exact U|apply covers_weaken_l; exact X].
Qed.
