(* PrefixProofs.v — C13, second sentence, in the words of the statement: for every well-formed locale
   string the id equals what LanguageIdentifier parses from the part BEFORE THE FIRST SINGLETON subtag.
   `split_single toks` (LocaleSpecProofs) cuts a token list at its first one-character token. *)
From UL Require Import Bytes Subtags LangId Ext Grammar LangIdSpec LocaleInv AbstractLocale LocaleSpec
                       BytesProofs SplitProofs LangIdProofs CanonProofs ExtProofs RoundTrip LocaleSpecProofs StringLevel Prefix.
From Coq Require Import Lia ZifyBool ZifyN.
Open Scope N_scope.
Arguments N.eqb : simpl never.
Arguments N.leb : simpl never.

Definition li_shape (t : bytes) : bool := lang_tok t || script_tok t || region_tok t || variant_tok t.

Lemma len_in_ge lo hi t : len_in lo hi t = true -> (lo <= length t)%nat.
Proof. unfold len_in. lia. Qed.

Lemma li_shape_not_single t : li_shape t = true -> is_single t = false.
Proof.
  unfold li_shape, is_single, lang_tok, script_tok, region_tok, variant_tok, len_in. intros H.
  destruct t as [|a [|b r]]; cbn [length] in *; [reflexivity| |reflexivity].
  cbn [forallb length] in H. rewrite !andb_true_r in H.
  repeat rewrite ?andb_false_r, ?orb_false_r in H. cbn in H. rewrite ?andb_false_r, ?orb_false_r in H. discriminate.
Qed.

Lemma take_while_shape p l : (forall t, p t = true -> li_shape t = true) -> forallb li_shape (take_while p l) = true.
Proof.
  intros Hp. induction l as [|x l IH]; cbn [take_while forallb]; [reflexivity|].
  destruct (p x) eqn:E; cbn [forallb]; [rewrite (Hp _ E), IH|]; reflexivity.
Qed.

(* the tokens consumed by the longest-prefix reading are language-identifier shaped, and the rest is what it returns *)
Lemma prefix_decomp toks id rem : toks <> [] -> spec_langid_prefix toks = Some (id, rem) ->
  exists pre, toks = pre ++ rem /\ pre <> [] /\ forallb li_shape pre = true.
Proof.
  destruct toks as [|l rest]; [congruence|]. intros _. cbn [spec_langid_prefix].
  destruct (lang_tok l) eqn:Hl; [|discriminate].
  destruct (take_script rest) as [sc r1] eqn:TS. destruct (take_region r1) as [rg r2] eqn:TR.
  intros H. injection H as _ <-.
  assert (S1 : exists p1, rest = p1 ++ r1 /\ forallb li_shape p1 = true).
  { destruct rest as [|t r]; cbn [take_script] in TS; [injection TS as _ <-; exists []; auto|].
    destruct (script_tok t) eqn:E; injection TS as _ <-; [|exists []; auto].
    exists [t]. split; [reflexivity|]. cbn [forallb]. unfold li_shape. rewrite E. rewrite !orb_true_r. reflexivity. }
  assert (S2 : exists p2, r1 = p2 ++ r2 /\ forallb li_shape p2 = true).
  { destruct r1 as [|t r]; cbn [take_region] in TR; [injection TR as _ <-; exists []; auto|].
    destruct (region_tok t) eqn:E; injection TR as _ <-; [|exists []; auto].
    exists [t]. split; [reflexivity|]. cbn [forallb]. unfold li_shape. rewrite E. rewrite !orb_true_r. reflexivity. }
  destruct S1 as (p1 & -> & H1). destruct S2 as (p2 & -> & H2).
  exists (l :: p1 ++ p2 ++ take_while variant_tok r2). repeat split; [|congruence|].
  - cbn [app]. f_equal. rewrite <- !app_assoc. do 2 f_equal. symmetry. apply take_drop_while.
  - cbn [forallb]. unfold li_shape at 1. rewrite Hl. cbn [orb]. rewrite !forallb_app, H1, H2. cbn [andb].
    apply take_while_shape. intros t Ht. unfold li_shape. rewrite Ht. rewrite !orb_true_r. reflexivity.
Qed.

Lemma li_shape_nosep t : li_shape t = true -> nosep t = true.
Proof.
  unfold li_shape. intros H. apply orb_true_iff in H as [H|H]; [|apply variant_tok_nosep; exact H].
  apply orb_true_iff in H as [H|H]; [|apply region_tok_nosep; exact H].
  apply orb_true_iff in H as [H|H]; [apply lang_tok_nosep|apply script_tok_nosep]; exact H.
Qed.

Lemma split_single_app pre R : forallb li_shape pre = true -> ext_stop R ->
  fst (split_single (pre ++ R)) = pre.
Proof.
  intros Hp HR. induction pre as [|t pre IH]; cbn [app].
  - destruct R as [|s r]; [reflexivity|]. cbn [split_single]. cbn [ext_stop] in HR.
    unfold is_single. rewrite HR. reflexivity.
  - cbn [forallb] in Hp. apply andb_true_iff in Hp as [Ht Hr]. cbn [split_single].
    rewrite (li_shape_not_single _ Ht). specialize (IH Hr). destruct (split_single (pre ++ R)) as [lead o].
    cbn [fst] in *. rewrite IH. reflexivity.
Qed.

Lemma single_li_stop R : ext_stop R -> li_stop R.
Proof.
  destruct R as [|t r]; [auto|]. cbn [ext_stop li_stop]. intros H.
  assert (S : is_single t = true) by (unfold is_single; rewrite H; reflexivity).
  repeat split.
  - destruct (script_tok t) eqn:E; [|reflexivity]. assert (X : li_shape t = true) by (unfold li_shape; rewrite E, !orb_true_r; reflexivity).
    rewrite (li_shape_not_single _ X) in S. discriminate.
  - destruct (region_tok t) eqn:E; [|reflexivity]. assert (X : li_shape t = true) by (unfold li_shape; rewrite E, !orb_true_r; reflexivity).
    rewrite (li_shape_not_single _ X) in S. discriminate.
  - destruct (variant_tok t) eqn:E; [|reflexivity]. assert (X : li_shape t = true) by (unfold li_shape; rewrite E, !orb_true_r; reflexivity).
    rewrite (li_shape_not_single _ X) in S. discriminate.
Qed.

(* the general fact: whenever what follows the longest language-identifier prefix is nothing or starts with
   a one-character subtag, the prefix is exactly the part before the first singleton and LanguageIdentifier
   reads the same id from it (written with '-') *)
Theorem prefix_before_singleton toks id rem :
  toks <> [] -> spec_langid_prefix toks = Some (id, rem) -> ext_stop rem ->
  toks = fst (split_single toks) ++ rem /\ langid_from_bytes (join (fst (split_single toks))) = Ok id.
Proof.
  intros Hne Hp HR. destruct (prefix_decomp toks id rem Hne Hp) as (pre & E & Hpne & Hsh).
  assert (F : fst (split_single toks) = pre) by (rewrite E; apply split_single_app; assumption).
  rewrite F. split; [exact E|].
  rewrite E in Hp. rewrite (spec_langid_prefix_app pre rem (single_li_stop _ HR) Hpne) in Hp.
  destruct (spec_langid_prefix pre) as [[v rem']|] eqn:Pp; [|discriminate]. injection Hp as -> Hr.
  assert (rem' = []) as ->.
  { destruct rem' as [|x r']; [reflexivity|]. apply (f_equal (@length _)) in Hr. rewrite app_length in Hr. cbn [length] in Hr. lia. }
  rewrite langid_from_bytes_spec, split_join; [|exact Hpne|revert Hsh; apply forallb_imp; apply li_shape_nosep].
  unfold spec_langid. destruct pre as [|p0 pr]; [congruence|]. rewrite Pp. reflexivity.
Qed.

(* C13: every strictly well-formed locale string (the MustAccept zone of C03) *)
Theorem locale_id_before_singleton s v :
  spec_locale_zone (split s) = MustAccept v ->
  locale_from_bytes s = Ok v
  /\ langid_from_bytes (join (fst (split_single (split s)))) = Ok (loc_id v).
Proof.
  intros Hz. split; [apply locale_complete; exact Hz|].
  pose proof (split_nonempty s) as Hne. set (toks := split s) in *.
  destruct (spec_langid_prefix toks) as [[id rem]|] eqn:Hp.
  2:{ unfold spec_locale_zone in Hz. destruct toks; [discriminate|]. rewrite Hp in Hz. discriminate. }
  rewrite (zone_shape toks id rem Hne Hp) in Hz.
  pose proof (split_single_spec rem) as SP. destruct (split_single rem) as [lead o]. destruct SP as [Hnl Ho].
  destruct (forallb is_empty_tok lead); [|discriminate].
  destruct (proc_from _ _) as [a|] eqn:Pa; [|discriminate].
  destruct (ac_nodup a); cbn [negb] in Hz; [|discriminate].
  destruct (ac_strict a) eqn:St; [|discriminate]. injection Hz as <-. cbn [loc_id].
  destruct (proc_from_mono _ _ _ Pa) as [M _]. specialize (M St). cbn [ac_strict] in M.
  destruct lead as [|x lead']; [|discriminate].
  assert (HR : ext_stop rem).
  { destruct o as [[t r']|]; [destruct Ho as [-> Hs]; cbn [app ext_stop]; unfold is_single in Hs; lia|subst rem; exact I]. }
  exact (proj2 (prefix_before_singleton toks id rem Hne Hp HR)).
Qed.

(* and for EVERY accepted locale string whose language identifier is directly followed by a singleton (or by
   nothing) - strict or lenient *)
Theorem locale_id_before_singleton_accepted s l rem :
  locale_from_bytes s = Ok l -> spec_langid_prefix (split s) = Some (loc_id l, rem) -> ext_stop rem ->
  langid_from_bytes (join (fst (split_single (split s)))) = Ok (loc_id l).
Proof.
  intros _ Hp HR. exact (proj2 (prefix_before_singleton (split s) (loc_id l) rem (split_nonempty s) Hp HR)).
Qed.

(* the executable form used by the oracle *)
Lemma before_single_split toks : before_single toks = fst (split_single toks).
Proof.
  induction toks as [|t r IH]; [reflexivity|]. cbn [before_single split_single]. destruct (is_single t); [reflexivity|].
  rewrite IH. destruct (split_single r); reflexivity.
Qed.
Theorem locale_id_before_single s v :
  spec_locale_zone (split s) = MustAccept v ->
  locale_from_bytes s = Ok v /\ langid_from_bytes (join (before_single (split s))) = Ok (loc_id v).
Proof. rewrite before_single_split. apply locale_id_before_singleton. Qed.
