(* FeatureUnification.v — C20, semantically: a small model of Cargo's feature resolution, run on the regenerated
   manifest inventory (gen/CfgSites.v: [features] tables, dependency edges with the features they enable, optional
   dependencies, the workspace root's inherited declarations).  `resolve root S` is the least set of (crate, feature)
   pairs and of crates switched on when a user depends on `root` with the features `S`: a feature switches on the items
   of its list (`dep/feature`, `dep:name`, the name of an optional dependency, another feature of the same crate), a
   switched-on crate switches on its non-optional dependencies with the features the edge (and the workspace root)
   declares.  THEOREM: for the two facade crates and EVERY subset S of their features, the behaviour-changing feature
   `likelysubtags` of unic-langid-impl (and of unic-locale-impl) is on iff the user asked for `likelysubtags`, and `serde`
   of unic-langid-impl is on iff the user asked for `serde` - cargo's feature unification adds nothing behind the
   user's back.  (Finite: 2 roots x 8 subsets, decided by the kernel's evaluator on the current manifests.) *)
From Coq Require Import List String Bool Ascii.
Import ListNotations.
From UL Require Import CfgSites CfgSitesProofs.
Open Scope string_scope.

Fixpoint before_slash (s : string) : string :=
  match s with
  | EmptyString => ""
  | String c r => if Ascii.eqb c "/"%char then "" else String c (before_slash r)
  end.
Definition crate_of (file : string) : string := if has_slash file then before_slash file else "".
Definition mem (x : string) (l : list string) : bool := existsb (String.eqb x) l.
Definition pmem (x : string * string) (l : list (string * string)) : bool :=
  existsb (fun y => String.eqb (fst x) (fst y) && String.eqb (snd x) (snd y)) l.
Definition add (x : string) (l : list string) : list string := if mem x l then l else x :: l.
Definition padd (x : string * string) (l : list (string * string)) := if pmem x l then l else x :: l.

Definition rows := cfg_sites.
Definition kind_of (r : site) : string := match r with (_, _, _, k) => k end.
Definition file_of (r : site) : string := match r with (f, _, _, _) => f end.
Definition name_of (r : site) : string := match r with (_, n, _, _) => n end.
Definition items_of (r : site) : list string := match r with (_, _, e, _) => if String.eqb e "" then [] else split_comma e end.

(* the features the workspace root declares for a dependency (inherited by `{ workspace = true }`) *)
Definition root_features (dep : string) : list string :=
  flat_map (fun r => if String.eqb (file_of r) "Cargo.toml" && String.eqb (name_of r) dep && String.eqb (kind_of r) "cargo-dep" then items_of r else []) rows.
Definition is_feature (c f : string) : bool :=
  existsb (fun r => String.eqb (kind_of r) "cargo-feature" && String.eqb (crate_of (file_of r)) c && String.eqb (name_of r) f) rows.
Definition strip_dep (s : string) : string := if prefix "dep:" s then substring 4 (String.length s - 4) s else s.

Record st := { crates : list string; feats : list (string * string) }.

(* switching a crate on (with the features an edge declares, plus the workspace root's) *)
Definition enable (d : string) (fs : list string) (s : st) : st :=
  {| crates := add d (crates s); feats := fold_left (fun acc f => padd (d, f) acc) (fs ++ root_features d) (feats s) |}.

Definition step (s : st) : st :=
  (* non-optional dependency edges of every switched-on crate *)
  let s1 := fold_left (fun acc r =>
              if String.eqb (kind_of r) "cargo-dep" && negb (String.eqb (file_of r) "Cargo.toml") && mem (crate_of (file_of r)) (crates acc)
              then enable (name_of r) (items_of r) acc else acc) rows s in
  (* the items of every switched-on feature *)
  fold_left (fun acc r =>
     if String.eqb (kind_of r) "cargo-feature" && pmem (crate_of (file_of r), name_of r) (feats acc) then
       fold_left (fun a it =>
          let c := crate_of (file_of r) in
          if has_slash it then enable (before_slash it) [after_slash it] a
          else if is_feature c it then {| crates := crates a; feats := padd (c, it) (feats a) |}
          else enable (strip_dep it) [] a) (items_of r) acc
     else acc) rows s1.

Fixpoint iter (n : nat) (s : st) : st := match n with O => s | S k => iter k (step s) end.
Definition resolve (root : string) (S : list string) : st :=
  iter 12 {| crates := [root]; feats := map (fun f => (root, f)) S |}.

Definition on (c f root : string) (S : list string) : bool := pmem (c, f) (feats (resolve root S)).

Definition subsets : list (list string) :=
  [[]; ["likelysubtags"]; ["macros"]; ["serde"]; ["likelysubtags"; "macros"]; ["likelysubtags"; "serde"]; ["macros"; "serde"];
   ["likelysubtags"; "macros"; "serde"]].
Definition exists_feature (root f : string) : bool := is_feature root f.

Definition unification_ok (root : string) : bool :=
  forallb (fun S =>
     Bool.eqb (on "unic-langid-impl" "likelysubtags" root S) (mem "likelysubtags" S)
     && Bool.eqb (on "unic-locale-impl" "likelysubtags" root S) (mem "likelysubtags" S && String.eqb root "unic-locale")
     && Bool.eqb (on "unic-langid-impl" "serde" root S) (mem "serde" S && exists_feature root "serde")) subsets.

Theorem feature_unification_adds_nothing :
  unification_ok "unic-langid" = true /\ unification_ok "unic-locale" = true.
Proof. vm_compute. split; reflexivity. Qed.

(* the fixed point is reached well before 12 rounds, and the resolution is not trivially empty: `macros` does switch
   the proc-macro crates on, `likelysubtags` reaches the impl crate through two edges *)
Example resolution_is_live :
  mem "unic-locale-macros-impl" (crates (resolve "unic-locale" ["macros"])) = true
  /\ mem "unic-langid-impl" (crates (resolve "unic-locale" [])) = true
  /\ on "unic-langid-impl" "likelysubtags" "unic-locale" ["likelysubtags"] = true
  /\ on "unic-langid-impl" "likelysubtags" "unic-locale" ["macros"] = false
  /\ feats (iter 12 {| crates := ["unic-locale"]; feats := [("unic-locale", "macros")] |})
     = feats (iter 13 {| crates := ["unic-locale"]; feats := [("unic-locale", "macros")] |}).
Proof. vm_compute. repeat split; reflexivity. Qed.
