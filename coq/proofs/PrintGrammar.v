(* PrintGrammar.v — C04 "to_string() is a well-formed identifier", against the EBNF relation: the token list a
   Locale prints (loc_tokens) is a member of WFLocale and denotes the value itself, provided every tfield has a
   value (a tfield whose only value was `true` prints as a bare key - the documented "no 'true' values" rule -
   which UTS #35 does not count as well-formed; that case is covered by C04_locale_canonical / C05_locale). *)
From UL Require Import Bytes Subtags LangId Ext Grammar LangIdSpec LocaleInv AbstractLocale LocaleSpec LocaleGrammar
                       BytesProofs SortProofs SplitProofs LangIdProofs CanonProofs ExtProofs KmapProofs RoundTrip KvProofs LocaleSpecProofs StringLevel
                       LocaleGrammarProofs LocaleGrammarInv.
From Coq Require Import Lia.
Open Scope N_scope.

Lemma drop_true_id vs : forallb (fun v => negb (beqb v true_bytes)) vs = true -> drop_true vs = vs.
Proof.
  induction vs as [|v vs IH]; [reflexivity|]. cbn [forallb]. intros H. apply andb_true_iff in H as [Hv Hr].
  unfold drop_true. cbn [filter]. change [116; 114; 117; 101] with true_bytes. rewrite Hv. f_equal. exact (IH Hr).
Qed.

Section KM.
Variables (ck cv kt vt : bytes -> bool).
Hypothesis Hck : forall k, ck k = true -> kt k = true /\ lower k = k.
Hypothesis Hcv : forall v, cv v = true -> vt v = true /\ lower v = v /\ negb (beqb v true_bytes) = true.

Lemma kmap_inv_groups m : kmap_inv ck cv m = true ->
  map norm_group m = m /\ kv_sort m = m /\ NoDup (group_keys m) /\ forallb (grp_ok kt vt) m = true.
Proof.
  unfold kmap_inv. intros H. apply andb_true_iff in H as [Hs Hf].
  assert (A : map norm_group m = m /\ group_keys m = keys m /\ forallb (grp_ok kt vt) m = true).
  { clear Hs. induction m as [|[k vs] m IH]; [auto|]. cbn [forallb fst snd] in Hf. apply andb_true_iff in Hf as [Hkv Hr].
    apply andb_true_iff in Hkv as [Hk Hv]. destruct (IH Hr) as (I1 & I2 & I3). destruct (Hck _ Hk) as [Hkt Hkl].
    assert (V : map lower vs = vs /\ forallb vt vs = true /\ forallb (fun v => negb (beqb v true_bytes)) vs = true).
    { clear -Hv Hcv. induction vs as [|v vs IH]; [auto|]. cbn [forallb map] in *. apply andb_true_iff in Hv as [H1 H2].
      destruct (Hcv _ H1) as (A1 & A2 & A3). destruct (IH H2) as (B1 & B2 & B3). rewrite A1, A2, A3, B1, B2, B3. auto. }
    destruct V as (V1 & V2 & V3).
    unfold group_keys, keys in *. cbn [map fst snd forallb]. unfold norm_group at 1. cbn [fst snd]. rewrite I1, I2, I3, Hkl, V1, (drop_true_id _ V3).
    unfold grp_ok. cbn [fst snd]. rewrite Hkt, V2. auto. }
  destruct A as (A1 & A2 & A3). repeat split; [exact A1|apply kv_sort_id; exact Hs| |exact A3].
  rewrite A2. apply ksorted_kuniq. exact Hs.
Qed.
End KM.

Lemma canon_ukey_facts k : canon_ukey k = true -> ukey_tok k = true /\ lower k = k.
Proof. unfold canon_ukey. intros H. apply andb_true_iff in H as [A B]. apply beqb_eq in B. auto. Qed.
Lemma canon_tkey_facts k : canon_tkey k = true -> tkey_tok k = true /\ lower k = k.
Proof. unfold canon_tkey. intros H. apply andb_true_iff in H as [A B]. apply beqb_eq in B. auto. Qed.
Lemma canon_utype_facts v : canon_utype v = true -> utype_tok v = true /\ lower v = v /\ negb (beqb v true_bytes) = true.
Proof. unfold canon_utype. intros H. apply andb_true_iff in H as [H C]. apply andb_true_iff in H as [A B]. apply beqb_eq in B. auto. Qed.
Lemma canon_tvalue_facts v : canon_tvalue v = true -> tvalue_tok v = true /\ lower v = v /\ negb (beqb v true_bytes) = true.
Proof. unfold canon_tvalue. intros H. apply andb_true_iff in H as [H C]. apply andb_true_iff in H as [A B]. apply beqb_eq in B. auto. Qed.

Lemma kmap_tokens_groups m : kmap_tokens m = flat_map group_tokens m.
Proof. reflexivity. Qed.

Lemma attrs_facts attrs : forallb canon_attr attrs = true -> ssortedb attrs = true ->
  forallb attr_tok attrs = true /\ dedup (sort (map lower attrs)) = attrs.
Proof.
  intros Hc Hs. assert (A : forallb attr_tok attrs = true /\ map lower attrs = attrs).
  { clear Hs. induction attrs as [|a r IH]; [auto|]. cbn [forallb map] in *. apply andb_true_iff in Hc as [Ha Hr].
    unfold canon_attr in Ha. apply andb_true_iff in Ha as [A1 A2]. apply beqb_eq in A2. destruct (IH Hr) as [-> ->]. rewrite A1, A2. auto. }
  destruct A as [A1 A2]. split; [exact A1|]. rewrite A2. apply canon_id. apply ssortedb_iff. exact Hs.
Qed.

Theorem u_tokens_WF u : u_inv u = true -> u_is_empty u = false ->
  exists su ub, u_tokens u = su :: ub /\ single_is 117 su = true /\ WFU ub u.
Proof.
  unfold u_inv. intros H Hne. apply andb_true_iff in H as [H Hs]. apply andb_true_iff in H as [Hk Ha].
  destruct (kmap_inv_groups canon_ukey canon_utype ukey_tok utype_tok canon_ukey_facts canon_utype_facts _ Hk) as (M1 & M2 & M3 & M4).
  destruct (attrs_facts _ Ha Hs) as [A1 A2].
  unfold u_tokens. rewrite Hne. exists [117], (u_attrs u ++ kmap_tokens (u_keywords u)). split; [reflexivity|]. split; [reflexivity|].
  rewrite kmap_tokens_groups. destruct u as [kws attrs]. cbn [u_keywords u_attrs] in *.
  rewrite <- M2 at 2. rewrite <- M1 at 2. rewrite <- A2 at 2.
  constructor; [exact A1|exact M4| |exact M3].
  unfold u_is_empty in Hne. cbn [u_keywords u_attrs] in Hne. destruct kws; [destruct attrs; [discriminate|left; discriminate]|right; discriminate].
Qed.

Theorem t_tokens_WF t : t_inv t = true -> t_is_empty t = false ->
  forallb (fun kv => negb (nil_b (snd kv))) (t_fields t) = true ->
  exists st tb, t_tokens t = st :: tb /\ single_is 116 st = true /\ WFT tb t.
Proof.
  unfold t_inv. intros H Hne Hv. apply andb_true_iff in H as [Hl Hf].
  destruct (kmap_inv_groups canon_tkey canon_tvalue tkey_tok tvalue_tok canon_tkey_facts canon_tvalue_facts _ Hf) as (M1 & M2 & M3 & M4).
  assert (TF : forallb tfield_ok (t_fields t) = true) by (apply LocaleGrammarInv.tfield_ok_of; assumption).
  unfold t_tokens. rewrite Hne. eexists [116], _. split; [reflexivity|]. split; [reflexivity|].
  rewrite kmap_tokens_groups. destruct t as [tl fields]. cbn [t_lang t_fields] in *.
  destruct tl as [l|].
  - rewrite <- M2 at 2. rewrite <- M1 at 2. apply WFT_lang; [|exact TF|exact M3].
    apply WFLangIdT_iff, spec_langid_iff, spec_langid_tokens. exact Hl.
  - cbn [app]. rewrite <- M2 at 2. rewrite <- M1 at 2. apply WFT_fields; [|exact TF|exact M3].
    unfold t_is_empty in Hne. cbn [t_lang t_fields] in Hne. destruct fields; [discriminate|discriminate].
Qed.

Lemma x_facts x : x_inv x = true -> forallb priv_tok x = true /\ sort (map lower x) = x.
Proof.
  unfold x_inv. intros H. apply andb_true_iff in H as [Hc Hs].
  assert (A : forallb priv_tok x = true /\ map lower x = x).
  { clear Hs. induction x as [|a r IH]; [auto|]. cbn [forallb map] in *. apply andb_true_iff in Hc as [Ha Hr].
    unfold canon_priv in Ha. apply andb_true_iff in Ha as [A1 A2]. apply beqb_eq in A2. destruct (IH Hr) as [-> ->]. rewrite A1, A2. auto. }
  destruct A as [A1 A2]. split; [exact A1|]. rewrite A2. apply sort_id. apply sortedb_iff. exact Hs.
Qed.

Theorem x_tokens_WF x : x_inv x = true -> WFX (x_tokens x) x.
Proof.
  intros H. destruct (x_facts _ H) as [P S]. unfold x_tokens. destruct x as [|a r]; [constructor|].
  rewrite <- S at 2. apply X_some; [reflexivity|discriminate|exact P].
Qed.

(* the printed extension part: t before u (alphabetical by singleton), each only when non-empty *)
Theorem ut_tokens_WF e : ext_inv e = true ->
  forallb (fun kv => negb (nil_b (snd kv))) (t_fields (e_transform e)) = true ->
  WFUT (t_tokens (e_transform e) ++ u_tokens (e_unicode e)) (e_unicode e) (e_transform e).
Proof.
  unfold ext_inv. intros H Hv. apply andb_true_iff in H as [H _]. apply andb_true_iff in H as [Hu Ht].
  destruct (t_is_empty (e_transform e)) eqn:Et; destruct (u_is_empty (e_unicode e)) eqn:Eu.
  - unfold t_tokens, u_tokens. rewrite Et, Eu. cbn [app].
    assert (e_unicode e = uext_default) as -> by (destruct (e_unicode e) as [[|] [|]]; try discriminate; reflexivity).
    assert (e_transform e = text_default) as -> by (destruct (e_transform e) as [[|] [|]]; try discriminate; reflexivity).
    constructor.
  - destruct (u_tokens_WF _ Hu Eu) as (su & ub & -> & Hs & W). unfold t_tokens. rewrite Et. cbn [app].
    assert (e_transform e = text_default) as -> by (destruct (e_transform e) as [[|] [|]]; try discriminate; reflexivity).
    apply UT_u; assumption.
  - destruct (t_tokens_WF _ Ht Et Hv) as (st & tb & -> & Hs & W). unfold u_tokens. rewrite Eu. rewrite app_nil_r.
    assert (e_unicode e = uext_default) as -> by (destruct (e_unicode e) as [[|] [|]]; try discriminate; reflexivity).
    apply UT_t; assumption.
  - destruct (t_tokens_WF _ Ht Et Hv) as (st & tb & -> & Hs & W). destruct (u_tokens_WF _ Hu Eu) as (su & ub & -> & Hs' & W').
    cbn [app]. apply UT_tu; assumption.
Qed.

Theorem printed_is_wellformed l : loc_inv l = true ->
  forallb (fun kv => negb (nil_b (snd kv))) (t_fields (e_transform (loc_ext l))) = true ->
  WFLocale (loc_tokens l) l.
Proof.
  unfold loc_inv. intros H Hv. apply andb_true_iff in H as [Hi He].
  pose proof (ut_tokens_WF _ He Hv) as Wut.
  assert (Hx : x_inv (e_private (loc_ext l)) = true) by (unfold ext_inv in He; apply andb_true_iff in He as [_ Hx]; exact Hx).
  pose proof (x_tokens_WF _ Hx) as Wx.
  destruct l as [id [u t x]]. unfold loc_tokens, ext_tokens. cbn [loc_id loc_ext e_unicode e_transform e_private] in *.
  rewrite (app_assoc (t_tokens t)).
  apply (WFLocale_intro (li_tokens id) id (t_tokens t ++ u_tokens u) u t (x_tokens x) x); [|exact Wut|exact Wx].
  apply WFLangIdT_iff, spec_langid_iff, spec_langid_tokens. exact Hi.
Qed.
