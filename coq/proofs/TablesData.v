(* TablesData.v — finite facts about the regenerated data, decided inside the kernel by vm_compute *)
From UL Require Import Bytes Subtags LangId Likely Inst LikelySpec Grammar.
From UL Require Import Tables Layout CldrLikely CldrLayout.
From Coq Require Import String.
Open Scope N_scope.

Definition the_dict : dict := mk_dict cldr_likely.

(* --- order: strictly increasing in the key order binary_search_by_key compares --- *)
Fixpoint sorted1 (l : list (N * tval)) : bool :=
  match l with
  | [] => true
  | (k, _) :: r => match r with [] => true | (k', _) :: _ => (k <? k') && sorted1 r end
  end.
Definition lt2 (a b a' b' : N) : bool := (a <? a') || ((a =? a') && (b <? b')).
Fixpoint sorted2 (l : list (N * N * tval)) : bool :=
  match l with
  | [] => true
  | (a, b, _) :: r => match r with [] => true | (a', b', _) :: _ => lt2 a b a' b' && sorted2 r end
  end.
Definition tables_sorted (T : tables) : bool :=
  sorted1 (t_lang_only T) && sorted2 (t_lang_region T) && sorted2 (t_lang_script T)
  && sorted2 (t_script_region T) && sorted1 (t_script_only T) && sorted1 (t_region_only T).

(* --- values: full triples that extend their keys --- *)
Definition full (v : tval) : bool := match v with (Some _, Some _, Some _) => true | _ => false end.
Definition oeq (o : option N) (k : N) : bool := match o with Some x => x =? k | None => false end.
Definition und_key : N := le_pack und.
Definition tables_full_extend (T : tables) : bool :=
  forallb (fun kv => match kv with (k, (vl, vs, vr)) => full (vl, vs, vr) && ((k =? und_key) || oeq vl k) end) (t_lang_only T)
  && forallb (fun kv => match kv with (a, b, (vl, vs, vr)) => full (vl, vs, vr) && oeq vl a && oeq vr b end) (t_lang_region T)
  && forallb (fun kv => match kv with (a, b, (vl, vs, vr)) => full (vl, vs, vr) && oeq vl a && oeq vs b end) (t_lang_script T)
  && forallb (fun kv => match kv with (a, b, (vl, vs, vr)) => full (vl, vs, vr) && oeq vs a && oeq vr b end) (t_script_region T)
  && forallb (fun kv => match kv with (k, (vl, vs, vr)) => full (vl, vs, vr) && oeq vs k end) (t_script_only T)
  && forallb (fun kv => match kv with (k, (vl, vs, vr)) => full (vl, vs, vr) && oeq vr k end) (t_region_only T).

(* --- every stored integer decodes to a subtag that its parser accepts unchanged --- *)
Definition wf_lang_int (x : N) : bool :=
  (x <? 2 ^ 64) &&
  match language_from_bytes (from_raw 8 x) with
  | Ok (Some t) => beqb t (from_raw 8 x) && (le_pack t =? x)
  | Ok None => beqb (from_raw 8 x) und && (x =? und_key)
  | _ => false end.
Definition wf_script_int (x : N) : bool :=
  (x <? 2 ^ 32) &&
  match script_from_bytes (from_raw 4 x) with Ok t => beqb t (from_raw 4 x) && (le_pack t =? x) | _ => false end.
Definition wf_region_int (x : N) : bool :=
  (x <? 2 ^ 32) &&
  match region_from_bytes (from_raw 4 x) with Ok t => beqb t (from_raw 4 x) && (le_pack t =? x) | _ => false end.
Definition wf_val (v : tval) : bool :=
  match v with (vl, vs, vr) =>
    match vl with Some x => wf_lang_int x && negb (x =? und_key) | None => true end
    && match vs with Some x => wf_script_int x | None => true end
    && match vr with Some x => wf_region_int x | None => true end
  end.
Definition tables_wf_ints (T : tables) : bool :=
  forallb (fun kv => match kv with (k, v) => wf_lang_int k && wf_val v end) (t_lang_only T)
  && forallb (fun kv => match kv with (a, b, v) => wf_lang_int a && wf_region_int b && wf_val v end) (t_lang_region T)
  && forallb (fun kv => match kv with (a, b, v) => wf_lang_int a && wf_script_int b && wf_val v end) (t_lang_script T)
  && forallb (fun kv => match kv with (a, b, v) => wf_script_int a && wf_region_int b && wf_val v end) (t_script_region T)
  && forallb (fun kv => match kv with (k, v) => wf_script_int k && wf_val v end) (t_script_only T)
  && forallb (fun kv => match kv with (k, v) => wf_region_int k && wf_val v end) (t_region_only T).

(* --- CLDR entry -> table row (the classification the generator uses) --- *)
Definition pack_val (v : bytes) : option tval :=
  match langid_from_bytes v with
  | Ok x =>
    match li_variants x with
    | None =>
      (* the generator drops a "ZZ" region *)
      let rg := match li_region x with Some r => if beqb r [90; 90] then None else Some r | None => None end in
      Some (option_map le_pack (li_lang x), option_map le_pack (li_script x), option_map le_pack rg)
    | Some _ => None
    end
  | _ => None
  end.
Definition tval_eqb (a b : tval) : bool :=
  let oe (x y : option N) := match x, y with Some p, Some q => p =? q | None, None => true | _, _ => false end in
  match a, b with (a1, a2, a3), (b1, b2, b3) => oe a1 b1 && oe a2 b2 && oe a3 b3 end.
Definition otval_eqb (a b : option tval) : bool :=
  match a, b with Some x, Some y => tval_eqb x y | None, None => true | _, _ => false end.

Definition entry_in_tables (T : tables) (kv : bytes * bytes) : bool :=
  match kv with (k, v) =>
    match langid_from_bytes k, pack_val v with
    | Ok x, Some pv =>
      match li_variants x with
      | Some _ => false
      | None =>
        match li_lang x, li_script x, li_region x with
        | None, None, None => otval_eqb (assoc1 und_key (t_lang_only T)) (Some pv)
        | Some l, None, None => otval_eqb (assoc1 (le_pack l) (t_lang_only T)) (Some pv)
        | Some l, None, Some r => otval_eqb (assoc2 (le_pack l) (le_pack r) (t_lang_region T)) (Some pv)
        | Some l, Some s, None => otval_eqb (assoc2 (le_pack l) (le_pack s) (t_lang_script T)) (Some pv)
        | None, Some s, Some r => otval_eqb (assoc2 (le_pack s) (le_pack r) (t_script_region T)) (Some pv)
        | None, Some s, None => otval_eqb (assoc1 (le_pack s) (t_script_only T)) (Some pv)
        | None, None, Some r => otval_eqb (assoc1 (le_pack r) (t_region_only T)) (Some pv)
        | Some _, Some _, Some _ => false
        end
      end
    | _, _ => false
    end
  end.
Definition all_entries_in_tables (T : tables) (d : dict) : bool := forallb (entry_in_tables T) d.

(* --- table row -> CLDR entry (converse) --- *)
Definition unpack_val (v : tval) : option bytes :=
  match v with
  | (Some l, Some s, Some r) => Some (join [from_raw 8 l; from_raw 4 s; from_raw 4 r])
  | _ => None
  end.
Definition obeq (a b : option bytes) : bool :=
  match a, b with Some x, Some y => beqb x y | None, None => true | _, _ => false end.
Definition rows_in_dict (T : tables) (d : dict) : bool :=
  forallb (fun kv => match kv with (k, v) =>
     obeq (dlookup (from_raw 8 k) d) (unpack_val v) && is_some (unpack_val v) end) (t_lang_only T)
  && forallb (fun kv => match kv with (a, b, v) =>
     obeq (dlookup (join [from_raw 8 a; from_raw 4 b]) d) (unpack_val v) && is_some (unpack_val v) end) (t_lang_region T)
  && forallb (fun kv => match kv with (a, b, v) =>
     obeq (dlookup (join [from_raw 8 a; from_raw 4 b]) d) (unpack_val v) && is_some (unpack_val v) end) (t_lang_script T)
  && forallb (fun kv => match kv with (a, b, v) =>
     obeq (dlookup (join [und; from_raw 4 a; from_raw 4 b]) d) (unpack_val v) && is_some (unpack_val v) end) (t_script_region T)
  && forallb (fun kv => match kv with (k, v) =>
     obeq (dlookup (join [und; from_raw 4 k]) d) (unpack_val v) && is_some (unpack_val v) end) (t_script_only T)
  && forallb (fun kv => match kv with (k, v) =>
     obeq (dlookup (join [und; from_raw 4 k]) d) (unpack_val v) && is_some (unpack_val v) end) (t_region_only T).

(* --- counts --- *)
Definition nlen {A} (l : list A) : N := N.of_nat (List.length l).
Definition counts_ok : bool :=
  (nlen lang_only =? lang_only_declared_len) && (nlen lang_region =? lang_region_declared_len)
  && (nlen lang_script =? lang_script_declared_len) && (nlen script_region =? script_region_declared_len)
  && (nlen script_only =? script_only_declared_len) && (nlen region_only =? region_only_declared_len)
  && (nlen lang_only + nlen lang_region + nlen lang_script + nlen script_region + nlen script_only
      + nlen region_only =? nlen cldr_likely).

Lemma data_sorted : tables_sorted the_tables = true.
Proof. vm_cast_no_check (eq_refl true). Qed.
Lemma data_full_extend : tables_full_extend the_tables = true.
Proof. vm_cast_no_check (eq_refl true). Qed.
Lemma data_wf_ints : tables_wf_ints the_tables = true.
Proof. vm_cast_no_check (eq_refl true). Qed.
Lemma data_counts : counts_ok = true.
Proof. vm_cast_no_check (eq_refl true). Qed.
Lemma data_entries : forallb (entry_in_tables the_tables) the_dict = true.
Proof. vm_cast_no_check (eq_refl true). Qed.
Lemma data_rows : rows_in_dict the_tables the_dict = true.
Proof. vm_cast_no_check (eq_refl true). Qed.
Lemma data_version : cldr_version = cldr_json_version.
Proof. reflexivity. Qed.

Lemma data_entries_forall : forall kv, In kv the_dict -> entry_in_tables the_tables kv = true.
Proof. exact (proj1 (forallb_forall (entry_in_tables the_tables) the_dict) data_entries). Qed.

(* C06, first clause: for every CLDR entry K -> V other than the bare "und" key, maximizing K gives V *)
Definition entry_maximizes (kv : bytes * bytes) : bool :=
  match kv with (k, v) =>
    if beqb k und then true
    else match langid_from_bytes k, parse_value v with
         | Ok x, Some t =>
           match maximize the_tables (li_lang x) (li_script x) (li_region x) with
           | Ok (Some t') => triple_eqb t' t
           | _ => false
           end
         | _, _ => false
         end
  end.
Lemma data_entries_maximize : forallb entry_maximizes the_dict = true.
Proof. vm_cast_no_check (eq_refl true). Qed.
Lemma data_entries_maximize_forall : forall kv, In kv the_dict -> entry_maximizes kv = true.
Proof. exact (proj1 (forallb_forall entry_maximizes the_dict) data_entries_maximize). Qed.

Lemma dict_mem_in k v (d : dict) :
  existsb (fun kv => beqb (fst kv) k && beqb (snd kv) v) d = true -> In (k, v) d.
Proof.
  intros H. apply existsb_exists in H as ([k' v'] & Hin & E). cbn [fst snd] in E.
  apply andb_true_iff in E as [E1 E2].
  assert (k' = k).
  { clear -E1. revert k E1. induction k' as [|x a IH]; intros [|y b]; cbn [beqb]; try discriminate; [reflexivity|].
    intros H. apply andb_true_iff in H as [H1 H2]. apply N.eqb_eq in H1. f_equal; auto. }
  assert (v' = v).
  { clear -E2. revert v E2. induction v' as [|x a IH]; intros [|y b]; cbn [beqb]; try discriminate; [reflexivity|].
    intros H. apply andb_true_iff in H as [H1 H2]. apply N.eqb_eq in H1. f_equal; auto. }
  subst. exact Hin.
Qed.
