(* PrintZone.v — C04 / C05 for EVERY invariant-satisfying Locale, without side condition: the token list it prints lies
   in the grammar's MustAccept zone or (only when some tfield has no value: the documented "no 'true' values" rule)
   in its lenient Either zone, in both cases WITH THE VALUE ITSELF - never MustReject, never Outside. *)
From UL Require Import Bytes Subtags LangId Ext Grammar LangIdSpec LocaleInv AbstractLocale LocaleSpec LocaleGrammar
                       BytesProofs SortProofs SplitProofs LangIdProofs CanonProofs ExtProofs KmapProofs RoundTrip KvProofs LocaleSpecProofs StringLevel
                       PrefixProofs LocaleGrammarProofs LocaleGrammarInv PrintGrammar.
From Coq Require Import Lia.
Open Scope N_scope.

(* the printed -t- body: recognised with exactly the value; strict iff every tfield has a value; never a repeated key *)
Lemma t_body_printed t : t_inv t = true -> t_is_empty t = false ->
  exists tb st, t_tokens t = [116] :: tb /\ t_body_spec tb = Some (t, mkSeg st true) /\ no_single tb = true.
Proof.
  unfold t_inv. intros H Hne. apply andb_true_iff in H as [Hl Hf].
  destruct (kmap_inv_groups canon_tkey canon_tvalue tkey_tok tvalue_tok canon_tkey_facts canon_tvalue_facts _ Hf) as (M1 & M2 & M3 & M4).
  pose proof (kw_spec_groups tkey_tok tvalue_tok tvalue_not_key (t_fields t) None M4) as KW. cbn [app] in KW. rewrite M1 in KW.
  unfold t_tokens. rewrite Hne. rewrite kmap_tokens_groups.
  destruct t as [tl fields]. cbn [t_lang t_fields] in *.
  assert (ND : keys_nodup fields = true) by (apply keys_nodup_of_NoDup; rewrite <- M1, keys_norm; exact M3).
  assert (NSg : no_single (flat_map group_tokens fields) = true)
    by (apply (no_single_groups tkey_tok tvalue_tok fields tkey_not_single tvalue_not_single M4)).
  destruct tl as [l|].
  - assert (W : WFLangIdT (li_tokens l) l) by (apply WFLangIdT_iff, spec_langid_iff, spec_langid_tokens; exact Hl).
    destruct (WFLangIdT_shape _ _ W) as (Sp & Sh & Tne & h & r & Eh & Hlt).
    assert (Pre : spec_langid_prefix (li_tokens l ++ flat_map group_tokens fields) = Some (l, flat_map group_tokens fields)).
    { rewrite (spec_langid_prefix_app (li_tokens l) _ (groups_head_stop _ M4) Tne), (spec_langid_as_prefix _ _ Sp). reflexivity. }
    assert (TP : t_pieces (li_tokens l ++ flat_map group_tokens fields) = (Some l, flat_map group_tokens fields)).
    { unfold t_pieces. rewrite Pre. rewrite Eh. cbn [app]. rewrite Hlt. reflexivity. }
    eexists _, _. split; [reflexivity|]. split.
    + rewrite t_body_spec_pieces, TP. cbn [fst snd]. rewrite KW. cbn [forallb nil_b]. rewrite M2, ND. reflexivity.
    + rewrite no_single_app, (no_single_forall li_shape _ li_shape_not_single Sh). exact NSg.
  - cbn [app]. assert (Fne : fields <> []) by (unfold t_is_empty in Hne; cbn [t_lang t_fields] in Hne; destruct fields; congruence).
    assert (TP : t_pieces (flat_map group_tokens fields) = (None, flat_map group_tokens fields)).
    { destruct fields as [|[k vs] fields']; [congruence|].
      cbn [forallb] in M4. apply andb_true_iff in M4 as [Hg1 _]. unfold grp_ok in Hg1. cbn [fst] in Hg1.
      apply andb_true_iff in Hg1 as [Hk _]. destruct (tkey_not_langshape _ Hk) as [_ Hnl].
      cbn [flat_map group_tokens fst snd app t_pieces]. rewrite Hnl. reflexivity. }
    eexists _, _. split; [reflexivity|]. split; [|exact NSg].
    rewrite t_body_spec_pieces, TP. cbn [fst snd]. rewrite KW. cbn [forallb nil_b]. rewrite M2, ND. reflexivity.
Qed.

Lemma process_t_printed st tb t s rest a : single_is 116 st = true -> t_body_spec tb = Some (t, mkSeg s true) -> ac_t a = None ->
  process ((st, tb) :: rest) a = process rest (mkAcc (ac_u a) (Some t) (ac_x a) (ac_strict a && s) (ac_nodup a && true)).
Proof.
  intros Hs B Ha. cbn [process]. rewrite (single_is_other 116 117 st Hs ltac:(lia)), Hs, Ha, B. reflexivity.
Qed.

Theorem printed_zone l : loc_inv l = true ->
  exists st : bool, spec_locale_zone (loc_tokens l) = (if st then MustAccept l else Either l).
Proof.
  intros Hinv. pose proof Hinv as H0. unfold loc_inv in H0. apply andb_true_iff in H0 as [Hi He].
  pose proof He as He0. unfold ext_inv in He0. apply andb_true_iff in He0 as [He1 Hx]. apply andb_true_iff in He1 as [Hu Ht].
  destruct l as [id [u t x]]. cbn [loc_id loc_ext e_unicode e_transform e_private] in *.
  unfold loc_tokens. cbn [loc_id loc_ext].
  set (R := ext_tokens (mkE u t x)). assert (HR : ext_stop R) by apply ext_tokens_stop.
  assert (Pre : spec_langid_prefix (li_tokens id ++ R) = Some (id, R))
    by (apply spec_langid_prefix_tokens; [exact Hi|apply ext_stop_li_stop; exact HR]).
  assert (Ne : li_tokens id ++ R <> []) by (unfold li_tokens; discriminate).
  rewrite (zone_shape _ _ _ Ne Pre). change (split_single R) with (split_single ([] ++ R)). rewrite (split_single_ns [] R eq_refl HR). cbn [forallb nil_b].
  assert (E : match (match R with [] => None | t0 :: r => Some (t0, r) end) with None => [] | Some (t0, r') => t0 :: r' end = R)
    by (destruct R; reflexivity).
  rewrite E, proc_from_tailsegs. subst R. unfold ext_tokens. cbn [e_unicode e_transform e_private].
  pose proof (x_tokens_WF _ Hx) as Wx. pose proof (WFX_stop _ _ Wx) as Sx.
  (* the trailing part: -u- (strict) then -x- *)
  assert (UX : forall a, ac_u a = None -> ac_x a = None -> ac_nodup a = true ->
            exists a', process (tailsegs (u_tokens u ++ x_tokens x)) a = Some a'
                       /\ or_default (ac_u a') uext_default = u /\ ac_t a' = ac_t a /\ or_default (ac_x a') [] = x
                       /\ ac_strict a' = ac_strict a /\ ac_nodup a' = true).
  { intros a Au Ax An. destruct (u_is_empty u) eqn:Eu.
    - unfold u_tokens. rewrite Eu. cbn [app]. destruct (process_x _ _ a Wx Ax) as (a' & P & E1 & E2 & E3 & E4 & E5).
      exists a'. split; [exact P|]. rewrite E1, Au, E2, E3, E4, E5. repeat split; try assumption.
      cbn [or_default]. destruct u as [[|] [|]]; try discriminate; reflexivity.
    - destruct (u_tokens_WF _ Hu Eu) as (su & ub & -> & Hs & W). cbn [app tailsegs].
      rewrite (single_is_other 117 120 su Hs ltac:(lia)), (segments_body su ub _ (proj2 (WFU_spec _ _ W)) Sx).
      rewrite (process_u su ub u) by (assumption || reflexivity).
      set (a1 := mkAcc (Some u) (ac_t a) (ac_x a) (ac_strict a && true) (ac_nodup a && true)).
      destruct (process_x _ _ a1 Wx Ax) as (a' & P & E1 & E2 & E3 & E4 & E5).
      exists a'. split; [exact P|]. rewrite E1, E2, E3, E4, E5. subst a1. cbn [ac_u ac_t ac_strict ac_nodup or_default]. rewrite An, !andb_true_r. repeat split; reflexivity. }
  destruct (t_is_empty t) eqn:Et.
  - unfold t_tokens. rewrite Et. cbn [app].
    destruct (UX (mkAcc None None None true true) eq_refl eq_refl eq_refl) as (a' & P & E1 & E2 & E3 & E4 & E5). rewrite P, E5. cbn [negb].
    exists true. rewrite E4. cbn [ac_strict]. unfold acc_val. rewrite E1, E2, E3. cbn [ac_t or_default].
    assert (t = text_default) as -> by (destruct t as [[|] [|]]; try discriminate; reflexivity). reflexivity.
  - destruct (t_body_printed t Ht Et) as (tb & st & -> & B & NS). cbn [app tailsegs].
    assert ((single_is 120 [116]) = false) as -> by reflexivity.
    rewrite (segments_body [116] tb _ NS (ux_tokens_stop u x)). rewrite (process_t_printed [116] tb t st) by (assumption || reflexivity).
    cbn [ac_u ac_x ac_strict ac_nodup andb].
    destruct (UX (mkAcc None (Some t) None st true) eq_refl eq_refl eq_refl) as (a' & P & E1 & E2 & E3 & E4 & E5). rewrite P, E5. cbn [negb].
    exists st. rewrite E4. cbn [ac_strict]. unfold acc_val. rewrite E1, E2, E3. cbn [ac_t or_default]. destruct st; reflexivity.
Qed.

(* consequences: never Outside, never MustReject; and MustAccept exactly when the side condition of
   C04_printed_is_in_the_grammar holds (every tfield has a value) *)
Corollary printed_not_outside l : loc_inv l = true -> spec_locale_zone (loc_tokens l) <> Outside /\ spec_locale_zone (loc_tokens l) <> MustReject.
Proof. intros H. destruct (printed_zone l H) as [[|] ->]; split; discriminate. Qed.
