(* LikelyProofs.v — algebra of maximize / minimize over ANY tables that pass the finite checks
   (full values extending their keys): C07, C08, the likely-subtags half of C01. *)
From UL Require Import Bytes Subtags LangId Likely Grammar LangIdSpec BytesProofs SubtagProofs PackProofs LangIdProofs CanonProofs RawProofs TablesData.
From Coq Require Import Lia ZifyBool ZifyN.
Open Scope N_scope.
Arguments N.add : simpl never.
Arguments N.sub : simpl never.
Arguments N.mul : simpl never.
Arguments N.leb : simpl never.
Arguments N.ltb : simpl never.
Arguments N.eqb : simpl never.

(* values the safe API can hold: canonical subtag texts (exactly what the parsers produce) *)
Definition wf_lang (l : option bytes) : bool := canon_lang l.
Definition wf_script (s : option bytes) : bool := opt_all canon_script s.
Definition wf_region (r : option bytes) : bool := opt_all canon_region r.
Definition wf_triple (l s r : option bytes) : bool := wf_lang l && wf_script s && wf_region r.

Lemma assoc1_in k l v : assoc1 k l = Some v -> In (k, v) l.
Proof.
  induction l as [|[k' v'] l IH]; cbn [assoc1]; [discriminate|].
  destruct (k' =? k) eqn:E.
  - intros H; injection H as ->. apply N.eqb_eq in E; subst. left; reflexivity.
  - intros H. right. auto.
Qed.
Lemma assoc2_in a b l v : assoc2 a b l = Some v -> In (a, b, v) l.
Proof.
  induction l as [|[[a' b'] v'] l IH]; cbn [assoc2]; [discriminate|].
  destruct ((a' =? a) && (b' =? b)) eqn:E.
  - intros H; injection H as ->. apply andb_true_iff in E as [E1 E2]. apply N.eqb_eq in E1, E2; subst. left; reflexivity.
  - intros H. right. auto.
Qed.

Definition keeps (a a' : option bytes) : Prop := match a with Some _ => a' = a | None => True end.
Definition full3 (t : triple) : Prop := match t with (Some _, Some _, Some _) => True | _ => False end.

Lemma oeq_eq o k : oeq o k = true -> o = Some k.
Proof. destruct o as [x|]; cbn [oeq]; [|discriminate]. intros H. apply N.eqb_eq in H. subst. reflexivity. Qed.

Lemma full_inv v : full v = true -> exists a b c, v = (Some a, Some b, Some c).
Proof. destruct v as [[[a|] [b|]] [c|]]; cbn [full]; try discriminate. eauto. Qed.


Lemma lang_ok_wf t : language_from_bytes t = Ok (Some t) -> wf_lang (Some t) = true.
Proof. apply language_value_canon. Qed.
Lemma script_ok_wf t : script_from_bytes t = Ok t -> wf_script (Some t) = true.
Proof. apply script_value_canon. Qed.
Lemma region_ok_wf t : region_from_bytes t = Ok t -> wf_region (Some t) = true.
Proof. apply region_value_canon. Qed.

Lemma wf_val_texts a b c : wf_val (Some a, Some b, Some c) = true ->
  wf_lang (Some (from_raw 8 a)) = true /\ wf_script (Some (from_raw 4 b)) = true /\ wf_region (Some (from_raw 4 c)) = true.
Proof.
  cbn [wf_val]. intros H. apply andb_true_iff in H as [H Hc]. apply andb_true_iff in H as [Ha Hb].
  apply andb_true_iff in Ha as [Ha Hu].
  repeat split.
  - apply lang_ok_wf. unfold wf_lang_int in Ha. apply andb_true_iff in Ha as [_ Ha].
    destruct (language_from_bytes (from_raw 8 a)) as [[t|]| | |] eqn:E; try discriminate.
    + apply andb_true_iff in Ha as [Ha _]. apply beqb_eq in Ha. subst t. reflexivity.
    + apply andb_true_iff in Ha as [_ Ha]. rewrite Ha in Hu. discriminate.
  - apply script_ok_wf. unfold wf_script_int in Hb. apply andb_true_iff in Hb as [_ Hb].
    destruct (script_from_bytes (from_raw 4 b)) as [t| | |] eqn:E; try discriminate.
    apply andb_true_iff in Hb as [Hb _]. apply beqb_eq in Hb. subst t. reflexivity.
  - apply region_ok_wf. unfold wf_region_int in Hc. apply andb_true_iff in Hc as [_ Hc].
    destruct (region_from_bytes (from_raw 4 c)) as [t| | |] eqn:E; try discriminate.
    apply andb_true_iff in Hc as [Hc _]. apply beqb_eq in Hc. subst t. reflexivity.
Qed.

Section Generic.
Variable T : tables.
Hypothesis HT : tables_full_extend T = true.
Hypothesis HW : tables_wf_ints T = true.

Lemma HW_parts :
  (forall k v, In (k, v) (t_lang_only T) -> wf_val v = true) /\
  (forall k1 k2 v, In (k1, k2, v) (t_lang_region T) -> wf_val v = true) /\
  (forall k1 k2 v, In (k1, k2, v) (t_lang_script T) -> wf_val v = true) /\
  (forall k1 k2 v, In (k1, k2, v) (t_script_region T) -> wf_val v = true) /\
  (forall k v, In (k, v) (t_script_only T) -> wf_val v = true) /\
  (forall k v, In (k, v) (t_region_only T) -> wf_val v = true).
Proof.
  pose proof HW as X. unfold tables_wf_ints in X.
  apply andb_true_iff in X as [X H]. apply andb_true_iff in X as [X H0]. apply andb_true_iff in X as [X H1].
  apply andb_true_iff in X as [X H2]. apply andb_true_iff in X as [X H3].
  rewrite forallb_forall in X, H, H0, H1, H2, H3.
  repeat split.
  - intros k v Hin. specialize (X _ Hin). cbn beta iota in X. apply andb_true_iff in X as [_ X]. exact X.
  - intros k1 k2 v Hin. specialize (H3 _ Hin). cbn beta iota in H3. apply andb_true_iff in H3 as [_ X']. exact X'.
  - intros k1 k2 v Hin. specialize (H2 _ Hin). cbn beta iota in H2. apply andb_true_iff in H2 as [_ X']. exact X'.
  - intros k1 k2 v Hin. specialize (H1 _ Hin). cbn beta iota in H1. apply andb_true_iff in H1 as [_ X']. exact X'.
  - intros k v Hin. specialize (H0 _ Hin). cbn beta iota in H0. apply andb_true_iff in H0 as [_ X']. exact X'.
  - intros k v Hin. specialize (H _ Hin). cbn beta iota in H. apply andb_true_iff in H as [_ X']. exact X'.
Qed.

Lemma HT_parts :
  (forall k v, In (k, v) (t_lang_only T) -> exists a b c, v = (Some a, Some b, Some c) /\ (k = und_key \/ a = k)) /\
  (forall k1 k2 v, In (k1, k2, v) (t_lang_region T) -> exists b, v = (Some k1, Some b, Some k2)) /\
  (forall k1 k2 v, In (k1, k2, v) (t_lang_script T) -> exists c, v = (Some k1, Some k2, Some c)) /\
  (forall k1 k2 v, In (k1, k2, v) (t_script_region T) -> exists a, v = (Some a, Some k1, Some k2)) /\
  (forall k v, In (k, v) (t_script_only T) -> exists a c, v = (Some a, Some k, Some c)) /\
  (forall k v, In (k, v) (t_region_only T) -> exists a b, v = (Some a, Some b, Some k)).
Proof.
  pose proof HT as X. unfold tables_full_extend in X.
  apply andb_true_iff in X as [X H]. apply andb_true_iff in X as [X H0]. apply andb_true_iff in X as [X H1].
  apply andb_true_iff in X as [X H2]. apply andb_true_iff in X as [X H3].
  rewrite forallb_forall in X, H, H0, H1, H2, H3.
  repeat split.
  - intros k v Hin. specialize (X _ Hin). destruct v as [[[a|] [b|]] [c|]]; cbn in X; try discriminate.
    exists a, b, c. split; [reflexivity|].
    apply orb_true_iff in X as [He|He]; [left; apply N.eqb_eq; exact He|right]. apply N.eqb_eq in He. exact He.
  - intros k1 k2 v Hin. specialize (H3 _ Hin). destruct v as [[[a|] [b|]] [c|]]; cbn in H3; try discriminate.
    apply andb_true_iff in H3 as [E1 E2]. apply N.eqb_eq in E1, E2. subst. eauto.
  - intros k1 k2 v Hin. specialize (H2 _ Hin). destruct v as [[[a|] [b|]] [c|]]; cbn in H2; try discriminate.
    apply andb_true_iff in H2 as [E1 E2]. apply N.eqb_eq in E1, E2. subst. eauto.
  - intros k1 k2 v Hin. specialize (H1 _ Hin). destruct v as [[[a|] [b|]] [c|]]; cbn in H1; try discriminate.
    apply andb_true_iff in H1 as [E1 E2]. apply N.eqb_eq in E1, E2. subst. eauto.
  - intros k v Hin. specialize (H0 _ Hin). destruct v as [[[a|] [b|]] [c|]]; cbn in H0; try discriminate.
    apply N.eqb_eq in H0. subst. eauto.
  - intros k v Hin. specialize (H _ Hin). destruct v as [[[a|] [b|]] [c|]]; cbn in H; try discriminate.
    apply N.eqb_eq in H. subst. eauto.
Qed.

Lemma lfp_full a b c s r :
  lang_from_parts (Some a, Some b, Some c) s r
  = Ok (Some (Some (from_raw 8 a), or_else s (Some (from_raw 4 b)), or_else r (Some (from_raw 4 c)))).
Proof. reflexivity. Qed.

Lemma pack_lang_not_und lb : wf_lang (Some lb) = true -> le_pack lb <> und_key.
Proof.
  intros H. destruct (canon_lang_small _ H) as (Hs & _ & Hn).
  intros E. unfold und_key in E. apply le_pack_inj in E; [|exact Hs|reflexivity]. contradiction.
Qed.

Lemma raw_lang lb : wf_lang (Some lb) = true -> from_raw 8 (le_pack lb) = lb.
Proof. apply canon_lang_raw. Qed.
Lemma raw_script b : wf_script (Some b) = true -> from_raw 4 (le_pack b) = b.
Proof. apply canon_script_raw. Qed.
Lemma raw_region b : wf_region (Some b) = true -> from_raw 4 (le_pack b) = b.
Proof. apply canon_region_raw. Qed.

(* the complete case analysis of maximize on well-formed input *)
Ltac fin_wf Hl Hs Hr W :=
  apply wf_val_texts in W as (W1 & W2 & W3);
  do 3 eexists; (split; [reflexivity|]); cbn [keeps]; repeat split; auto;
  unfold wf_triple; rewrite ?Hl, ?Hs, ?Hr, ?W1, ?W2, ?W3; reflexivity.

Theorem maximize_char l s r :
  wf_triple l s r = true ->
  maximize T l s r = Ok None \/
  exists l' s' r', maximize T l s r = Ok (Some (Some l', Some s', Some r'))
     /\ keeps l (Some l') /\ keeps s (Some s') /\ keeps r (Some r')
     /\ (is_some l && is_some s && is_some r = false)
     /\ wf_triple (Some l') (Some s') (Some r') = true.
Proof.
  destruct HT_parts as (Hlo & Hlr & Hls & Hsr & Hso & Hro).
  destruct HW_parts as (Wlo & Wlr & Wls & Wsr & Wso & Wro).
  unfold wf_triple. intros Hwf. apply andb_true_iff in Hwf as [Hwf Hr]. apply andb_true_iff in Hwf as [Hl Hs].
  unfold maximize.
  destruct (is_some l && is_some s && is_some r) eqn:Eall; [left; reflexivity|].
  destruct l as [lb|].
  - (* known language *)
    destruct (match r with Some rb => assoc2 (le_pack lb) (le_pack rb) (t_lang_region T) | None => None end) as [v|] eqn:E1.
    + destruct r as [rb|]; [|discriminate]. apply assoc2_in in E1. pose proof (Wlr _ _ _ E1) as W. apply Hlr in E1 as (b & ->).
      destruct s as [sb|]; [cbn in Eall; discriminate|].
      right. rewrite lfp_full. cbn [or_else]. rewrite (raw_lang _ Hl), (raw_region _ Hr). fin_wf Hl Hs Hr W.
    + destruct (match s with Some sb => assoc2 (le_pack lb) (le_pack sb) (t_lang_script T) | None => None end) as [v|] eqn:E2.
      * destruct s as [sb|]; [|discriminate]. apply assoc2_in in E2. pose proof (Wls _ _ _ E2) as W. apply Hls in E2 as (c & ->).
        destruct r as [rb|]; [cbn in Eall; discriminate|].
        right. rewrite lfp_full. cbn [or_else]. rewrite (raw_lang _ Hl), (raw_script _ Hs). fin_wf Hl Hs Hr W.
      * destruct (assoc1 (le_pack lb) (t_lang_only T)) as [v|] eqn:E3; [|left; reflexivity].
        apply assoc1_in in E3. pose proof (Wlo _ _ E3) as W. apply Hlo in E3 as (a & b & c & -> & Hk).
        destruct Hk as [Hk|Hk]; [exfalso; exact (pack_lang_not_und _ Hl Hk)|]. subst a.
        right. rewrite lfp_full. rewrite (raw_lang _ Hl).
        destruct s as [sb|], r as [rb|]; cbn [or_else]; try (cbn in Eall; discriminate); fin_wf Hl Hs Hr W.
  - destruct s as [sb|].
    + destruct (match r with Some rb => assoc2 (le_pack sb) (le_pack rb) (t_script_region T) | None => None end) as [v|] eqn:E1.
      * destruct r as [rb|]; [|discriminate]. apply assoc2_in in E1. pose proof (Wsr _ _ _ E1) as W. apply Hsr in E1 as (a & ->).
        right. rewrite lfp_full. cbn [or_else]. rewrite (raw_script _ Hs), (raw_region _ Hr). fin_wf Hl Hs Hr W.
      * destruct (assoc1 (le_pack sb) (t_script_only T)) as [v|] eqn:E2; [|left; reflexivity].
        apply assoc1_in in E2. pose proof (Wso _ _ E2) as W. apply Hso in E2 as (a & c & ->).
        right. rewrite lfp_full. rewrite (raw_script _ Hs).
        destruct r as [rb|]; cbn [or_else]; fin_wf Hl Hs Hr W.
    + destruct r as [rb|]; [|left; reflexivity].
      destruct (assoc1 (le_pack rb) (t_region_only T)) as [v|] eqn:E2; [|left; reflexivity].
      apply assoc1_in in E2. pose proof (Wro _ _ E2) as W. apply Hro in E2 as (a & b & ->).
      right. rewrite lfp_full. cbn [or_else]. rewrite (raw_region _ Hr). fin_wf Hl Hs Hr W.
Qed.

(* C01 (likely half): no panic, no fuel, no error *)
Corollary maximize_total l s r : wf_triple l s r = true -> exists o, maximize T l s r = Ok o.
Proof. intros H. destruct (maximize_char l s r H) as [E|(a & b & c & E & _)]; rewrite E; eauto. Qed.

(* C07 *)
Corollary maximize_preserves l s r t :
  wf_triple l s r = true -> maximize T l s r = Ok (Some t) ->
  exists l' s' r', t = (Some l', Some s', Some r') /\ keeps l (Some l') /\ keeps s (Some s') /\ keeps r (Some r')
    /\ wf_triple (Some l') (Some s') (Some r') = true.
Proof.
  intros H E. destruct (maximize_char l s r H) as [E'|(a & b & c & E' & K1 & K2 & K3 & _ & W)]; rewrite E' in E; [discriminate|].
  injection E as <-. exists a, b, c. auto.
Qed.

Corollary maximize_idem l s r l' s' r' :
  maximize T l s r = Ok (Some (Some l', Some s', Some r')) -> maximize T (Some l') (Some s') (Some r') = Ok None.
Proof. intros _. reflexivity. Qed.


(* ---- minimize (C08) ---- *)
Lemma obeqb_eq a b : obeqb a b = true <-> a = b.
Proof. destruct a, b; cbn [obeqb]; split; try discriminate; try reflexivity.
  - intros H. apply beqb_eq in H. congruence.
  - intros H. injection H as ->. apply beqb_refl. Qed.
Lemma triple_eqb_eq a b : triple_eqb a b = true <-> a = b.
Proof.
  destruct a as [[a1 a2] a3], b as [[b1 b2] b3]. cbn [triple_eqb]. rewrite !andb_true_iff, !obeqb_eq.
  split; [intros [[-> ->] ->]; reflexivity|intros H; injection H as -> -> ->; auto].
Qed.
Lemma trial_hit_iff o mx : trial_hit o mx = true <-> o = Some mx.
Proof. destruct o as [t|]; cbn [trial_hit]; [rewrite triple_eqb_eq|]; split; congruence. Qed.

Theorem minimize_from_char ml ms mr :
  wf_triple (Some ml) (Some ms) (Some mr) = true ->
  let mx := (Some ml, Some ms, Some mr) in
  (minimize_from T mx = Ok None
     /\ maximize T (Some ml) None None <> Ok (Some mx)
     /\ maximize T (Some ml) None (Some mr) <> Ok (Some mx)
     /\ maximize T (Some ml) (Some ms) None <> Ok (Some mx)) \/
  (minimize_from T mx = Ok (Some (Some ml, None, None)) /\ maximize T (Some ml) None None = Ok (Some mx)) \/
  (minimize_from T mx = Ok (Some (Some ml, None, Some mr)) /\ maximize T (Some ml) None (Some mr) = Ok (Some mx)
     /\ maximize T (Some ml) None None <> Ok (Some mx)) \/
  (minimize_from T mx = Ok (Some (Some ml, Some ms, None)) /\ maximize T (Some ml) (Some ms) None = Ok (Some mx)
     /\ maximize T (Some ml) None None <> Ok (Some mx) /\ maximize T (Some ml) None (Some mr) <> Ok (Some mx)).
Proof.
  intros Hwf mx. unfold wf_triple in Hwf. apply andb_true_iff in Hwf as [Hwf Hr]. apply andb_true_iff in Hwf as [Hl Hs].
  subst mx. unfold minimize_from. cbn [is_some].
  assert (W1 : wf_triple (Some ml) None None = true) by (unfold wf_triple; rewrite Hl; reflexivity).
  assert (W2 : wf_triple (Some ml) None (Some mr) = true) by (unfold wf_triple; rewrite Hl, Hr; reflexivity).
  assert (W3 : wf_triple (Some ml) (Some ms) None = true) by (unfold wf_triple; rewrite Hl, Hs; reflexivity).
  destruct (maximize_total _ _ _ W1) as [o1 E1]. destruct (maximize_total _ _ _ W2) as [o2 E2].
  destruct (maximize_total _ _ _ W3) as [o3 E3].
  rewrite E1, E2, E3.
  destruct (trial_hit o1 _) eqn:H1.
  - apply trial_hit_iff in H1. subst o1. right; left. auto.
  - assert (o1 <> Some (Some ml, Some ms, Some mr)) as N1 by (intros X; apply trial_hit_iff in X; congruence).
    destruct (trial_hit o2 _) eqn:H2.
    + apply trial_hit_iff in H2. subst o2. right; right; left. repeat split; auto. congruence.
    + assert (o2 <> Some (Some ml, Some ms, Some mr)) as N2 by (intros X; apply trial_hit_iff in X; congruence).
      destruct (trial_hit o3 _) eqn:H3.
      * apply trial_hit_iff in H3. subst o3. right; right; right. repeat split; auto; congruence.
      * assert (o3 <> Some (Some ml, Some ms, Some mr)) as N3 by (intros X; apply trial_hit_iff in X; congruence).
        left. repeat split; auto; congruence.
Qed.

(* the maximized form of a well-formed triple *)
Definition maxed (l s r : option bytes) : triple :=
  if is_some l && is_some s && is_some r then (l, s, r)
  else match maximize T l s r with Ok (Some t) => t | _ => (l, s, r) end.

Definition count_sr (t : triple) : nat :=
  match t with (_, s, r) => (if is_some s then 1 else 0) + (if is_some r then 1 else 0) end%nat.

(* C08, all clauses about the triple *)
Theorem minimize_char l s r :
  wf_triple l s r = true ->
  minimize T l s r = Ok None \/
  exists ml ms mr t,
    let mx := (Some ml, Some ms, Some mr) in
    maxed l s r = mx
    /\ minimize T l s r = Ok (Some t)
    /\ (t = (Some ml, None, None) \/ t = (Some ml, None, Some mr) \/ t = (Some ml, Some ms, None))
    /\ (match t with (a, b, c) => maximize T a b c end) = Ok (Some mx)
    /\ (t <> (Some ml, None, None) -> maximize T (Some ml) None None <> Ok (Some mx))
    /\ (t = (Some ml, Some ms, None) -> maximize T (Some ml) None (Some mr) <> Ok (Some mx))
    /\ wf_triple (Some ml) (Some ms) (Some mr) = true.
Proof.
  intros Hwf. unfold minimize, maxed.
  destruct (is_some l && is_some s && is_some r) eqn:Eall.
  - destruct l as [ml|], s as [ms|], r as [mr|]; try discriminate.
    destruct (minimize_from_char ml ms mr Hwf) as [(E & _)|[(E & M)|[(E & M & N1)|(E & M & N1 & N2)]]]; rewrite E.
    + left; reflexivity.
    + right. exists ml, ms, mr, (Some ml, None, None). cbn zeta. repeat split; auto; try congruence.
    + right. exists ml, ms, mr, (Some ml, None, Some mr). cbn zeta. repeat split; auto; try congruence.
    + right. exists ml, ms, mr, (Some ml, Some ms, None). cbn zeta. repeat split; auto; try congruence.
  - destruct (maximize_char l s r Hwf) as [E0|(ml & ms & mr & E0 & K1 & K2 & K3 & _ & W)]; rewrite E0; [left; reflexivity|].
    destruct (minimize_from_char ml ms mr W) as [(E & _)|[(E & M)|[(E & M & N1)|(E & M & N1 & N2)]]]; rewrite E.
    + left; reflexivity.
    + right. exists ml, ms, mr, (Some ml, None, None). cbn zeta. repeat split; auto; try congruence.
    + right. exists ml, ms, mr, (Some ml, None, Some mr). cbn zeta. repeat split; auto; try congruence.
    + right. exists ml, ms, mr, (Some ml, Some ms, None). cbn zeta. repeat split; auto; try congruence.
Qed.

Corollary minimize_total l s r : wf_triple l s r = true -> exists o, minimize T l s r = Ok o.
Proof. intros H. destruct (minimize_char l s r H) as [E|(a & b & c & t & _ & E & _)]; rewrite E; eauto. Qed.


Lemma minimize_unfold l s r :
  wf_triple l s r = true ->
  (minimize T l s r = Ok None /\ maxed l s r = (l, s, r)) \/
  (minimize T l s r = minimize_from T (maxed l s r)
   /\ exists ml ms mr, maxed l s r = (Some ml, Some ms, Some mr) /\ wf_triple (Some ml) (Some ms) (Some mr) = true
        /\ keeps l (Some ml) /\ keeps s (Some ms) /\ keeps r (Some mr)).
Proof.
  intros Hwf. unfold minimize, maxed.
  destruct (is_some l && is_some s && is_some r) eqn:Eall.
  - right. split; [reflexivity|]. destruct l as [ml|], s as [ms|], r as [mr|]; try discriminate.
    exists ml, ms, mr. cbn [keeps]. auto.
  - destruct (maximize_char l s r Hwf) as [E0|(ml & ms & mr & E0 & K1 & K2 & K3 & _ & W)]; rewrite E0.
    + left. auto.
    + right. split; [reflexivity|]. exists ml, ms, mr. auto.
Qed.

(* minimizing twice = minimizing once *)
Theorem minimize_idem l s r t :
  wf_triple l s r = true -> minimize T l s r = Ok (Some t) ->
  (match t with (a, b, c) => minimize T a b c end) = Ok (Some t).
Proof.
  intros Hwf E.
  destruct (minimize_char l s r Hwf) as [E'|(ml & ms & mr & t' & Hmx & E' & Hform & Hmax & _ & _ & W)];
    rewrite E' in E; [discriminate|]. injection E as <-. cbn zeta in *.
  destruct (minimize_unfold l s r Hwf) as [(E0 & _)|(E0 & _)]; [congruence|].
  rewrite Hmx in E0. rewrite E0 in E'.
  destruct Hform as [ -> | [ -> | -> ] ]; unfold minimize; cbn [is_some andb]; rewrite Hmax; exact E'.
Qed.

(* minimize (maximize x) = minimize x *)
Theorem minimize_of_maxed l s r :
  wf_triple l s r = true ->
  (match maxed l s r with (a, b, c) => minimize T a b c end) = minimize T l s r.
Proof.
  intros Hwf. destruct (minimize_unfold l s r Hwf) as [(E0 & Em)|(E0 & ml & ms & mr & Em & W & _)].
  - rewrite Em. reflexivity.
  - rewrite Em in *. rewrite E0. unfold minimize. cbn [is_some andb]. reflexivity.
Qed.

(* never more script/region subtags than the original *)
Theorem minimize_count l s r t :
  wf_triple l s r = true -> minimize T l s r = Ok (Some t) -> (count_sr t <= count_sr (l, s, r))%nat.
Proof.
  intros Hwf E.
  destruct (minimize_char l s r Hwf) as [E'|(ml & ms & mr & t' & Hmx & E' & Hform & Hmax & Hfirst & _ & W)];
    rewrite E' in E; [discriminate|]. injection E as <-. cbn zeta in *.
  destruct s as [sb|], r as [rb|]; destruct Hform as [ -> | [ -> | -> ] ]; cbn [count_sr is_some]; try lia.
  all: exfalso.
  all: destruct l as [lb|]; [|unfold minimize in E'; cbn in E'; discriminate].
  all: unfold maxed in Hmx; cbn [is_some andb] in Hmx.
  all: destruct (maximize_char (Some lb) None None Hwf) as [E0|(a & b & c & E0 & K1 & _)];
       rewrite E0 in Hmx; [discriminate|].
  all: injection Hmx as -> -> ->; cbn [keeps] in K1; injection K1 as ->.
  all: apply Hfirst; [congruence|exact E0].
Qed.

End Generic.
