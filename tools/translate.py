#!/usr/bin/env python3
"""translate.py <repo> <outdir> — the translator: regenerates coq/gen/*.v from the repository's data
and sources on every run.  Files are rewritten only when their content changes."""
import os, sys

def write_if_changed(path, content):
    if os.path.exists(path) and open(path).read() == content:
        return False
    open(path, "w").write(content)
    return True

def main():
    repo, out = sys.argv[1], sys.argv[2]
    os.makedirs(out, exist_ok=True)
    changed = []
    for mod in MODULES:
        name, content = mod(repo)
        if write_if_changed(os.path.join(out, name), content):
            changed.append(name)
    print("translator: regenerated %s" % (", ".join(changed) if changed else "nothing (unchanged)"))

MODULES = []

if __name__ == "__main__":
    main()
