#!/bin/bash
# usage: seed_run.sh <base dir of the sub-agents' worktrees> <Cxx> [extra checks...] — confirm and test every change the
# sub-agent for Cxx left under <base>/<Cxx>/OUT/change<k>/; serialised (the checks run against /repo itself).
base=$1; pid=$2; shift 2
exec 9>/tmp/seed_run.lock; flock 9
for d in $base/$pid/OUT/change*; do
  [ -f $d/patch.diff ] || continue
  k=${d##*change}
  n=1; while [ -e /verif/seeded/$pid-$n ]; do n=$((n+1)); done
  SEED_BASE=$base SEED_OUT_K=$n python3 /verif/tools/seed_confirm.py $pid $k $pid "$@"
done
