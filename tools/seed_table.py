#!/usr/bin/env python3
"""seed_table.py [ids...] — markdown rows of the seeded-change table of DESIGN.md section 10 from seeded/*/meta.json."""
import json, os, sys, re
root = os.path.join(os.path.dirname(os.path.abspath(__file__)), "..", "seeded")
ids = sys.argv[1:] or sorted(os.listdir(root), key=lambda d: (d.split("-")[0], int(d.split("-")[1])))
def cell(s, n): return re.sub(r"\s+", " ", str(s)).replace("|", "/")[:n]
for d in ids:
    j = json.load(open(os.path.join(root, d, "meta.json")))
    runs = j.get("checks_run", {})
    caught = []
    for c, o in runs.items():
        if "VIOLATION" in o:
            caught.append(c + (" (no-failing-input-found)" if "no-failing-input-found" in o else ""))
    missed = [c for c, o in runs.items() if "VIOLATION" not in o]
    txt = ", ".join(caught) or ("not reported - outside the properties' domain (needs a value made by an `_unchecked` constructor against its documented contract; see meta.json)" if j.get("outside_domain") else "NOT CAUGHT")
    if "caught_by_first" in j:
        txt += " — first run: " + (", ".join(j["caught_by_first"]) or "missed") + "; after strengthening the generators: as listed"
    print("| %s | %s | %s | %s |" % (d, cell(j.get("what", ""), 230), cell(j.get("needs", ""), 150), txt))
