"""Per-property configuration of ./check: which harness suites run (with which cargo features),
which operations of a suite are relevant to the property, and what the evidence says."""

TRUSTED_BASE = [
    "Coq 8.16.1 kernel incl. its bytecode VM (vm_compute on finite data); no native_compute",
    "axioms: none (every property theorem must print 'Closed under the global context'; audited each run)",
    "translator tools/translate.py (tables.rs, layout_table.rs, likelySubtags.json, layout.json, cfg/panic site inventories -> coq/gen/*.v)",
    "extraction with ExtrOcamlBasic only (bool, option, unit, list, prod, sumbool, sumor -> OCaml natives); OCaml 4.13.1; ocaml/driver.ml",
    "Rust harness /verif/harness (generators, canonical printing), cargo/rustc",
    "modelled by contract, not verified: tinystr 0.7.6, core/alloc (split, Peekable, sort_unstable, dedup, binary_search, BTreeMap, Vec), derived PartialEq/Ord/Hash, fmt",
]
COMMON_ASSUMPTIONS = [
    "the hand-written Gallina model corresponds to the Rust code only as far as the correspondence generators exercise it (differential testing, sizes in coverage.ops)",
]

ALL_FEATURE_SETS = [[], ["likely"], ["serde"], ["likely", "macros", "serde"]]


def simple(suite, ops=None, features=(), extra=()):
    return lambda tier: [{"suite": suite, "ops": ops, "features": list(features), "extra": list(extra)}]


LIKELY_RULE = ("suite `likely` (harness built with the likelysubtags feature and the cfg(unic_locale_verif) hook): every row of the ten compiled "
               "tables; every table key as a triple with 8 perturbations each (a component dropped / replaced by an unknown / by a random CLDR subtag); "
               "random triples over the CLDR subtag universe + unknown representatives; method forms with variants attached; the 710 layout locales and "
               "language x script / language x region products for character_direction; SCHEDULES: every table key maximized / minimized from 8 threads at once "
               "(30 rounds, thorough 300; each shard), the answers compared with the single-threaded ones (`par_*` operations, judged like the plain ones); STATE BETWEEN CALLS: ordered pairs of triples / identifiers that share their language, "
               "two calls in ONE case so that both run in the same process (`seq_*` operations: the second answer, judged like the plain operation on the second input). non-trivial = distinct (operation, input) pairs whose model answer is not an error")

LANGID_RULE = ("suite `langid`: G2 token sequences (12 first tokens x boundary-class alphabet of ~78 tokens: all sequences of <= 3 tokens, "
               "<= 4 over a 31-token alphabet; thorough: one more level), joined with random '-'/'_' masks; G3 random well-formed identifiers with random "
               "case/separator masks; G4 1-3 edit mutations of them; from_parts with shuffled/duplicated variants; the C11 product domain "
               "(108 x 108 x 4 flag pairs); random parsed pairs for matches / cmp / == / hash / == &str. non-trivial = distinct (operation, input) pairs the model accepts")

def run(suite, ops=None, features=(), only_panics=False, profile="release", gen_ops=None):
    d = {"suite": suite, "ops": ops, "features": list(features), "extra": (["--ops", ",".join(ops)] if ops else []), "profile": profile}
    if only_panics:
        d["only_panics"] = True
        d["extra"] = (["--ops", ",".join(gen_ops)] if gen_ops else [])
    return d

LOCALE_RULE = ("suite `locale` (harness built with likelysubtags + hook): the regression corpus of minimised earlier failures first; every byte through "
               "ExtensionType::from_byte; G2 token sequences (12 first tokens x ~78-token boundary alphabet: all sequences of <= 3 tokens, <= 4 over a 31-token "
               "alphabet, `en-<singleton>-` + 3 tokens; thorough: one more level) with random '-'/'_' masks; G3 random well-formed locales (all extension shapes, "
               "random case/separators); G4 1-3 edit mutations; ExtensionsMap::from_bytes on extension strings (with and without the leading '-'); random pairs for "
               "matches/cmp/==/hash; metamorphic pairs (permuted / duplicated variants and attributes, permuted keywords and tfields, swapped -u-/-t-, re-cased, "
               "re-separated); 100k-subtag inputs; G6 operation histories (random up to 80 steps with valid, boundary and invalid arguments from default() and from "
               "parsed values; exhaustive pairs (thorough: triples) over 36 small operations from 3 starts), every getter + to_string + re-parse after every step. "
               "non-trivial = distinct (operation, input) pairs whose model answer is OK")

PROPS = {
    "C01": {
        "runs": lambda tier: [run("locale", features=["likely"], only_panics=True), run("langid", only_panics=True),
                              run("subtags", only_panics=True), run("likely", features=["likely"], only_panics=True), run("serde", features=["serde"], only_panics=True),
                              run("locale", features=["likely"], only_panics=True, profile="debug", gen_ops=["big", "loc_hist"]),
                              run("subtags", only_panics=True, profile="debug", gen_ops=["lang_raw", "script_raw", "region_raw", "variant_raw"])],
        "rule": "all five suites (subtags, langid, locale, likely, serde - the Deserialize impl accepts text too, and a binary format may hand it non-UTF-8 bytes) under catch_unwind with a recording panic hook and a per-call watchdog; for C01 only panics, "
                "hangs, aborts and the `big` (100k-subtag) cases count; the `big` cases and all operation histories and the raw-integer conversions of the four subtag types are run a second time on an UNOPTIMISED build of the harness and library "
                "(debug assertions and overflow checks on, no tail-call elimination: recursion depth and arithmetic overflow show up there). " + LOCALE_RULE,
    },
    "C03": {"runs": lambda tier: [run("locale", ops=["locale", "extmap", "ext_type", "par_locale", "seq_locale"], features=["likely"])], "rule": LOCALE_RULE},
    "C04": {"runs": lambda tier: [run("locale", ops=["loc_canonicalize", "loc_hist", "loc_built"], features=["likely"]), run("langid", ops=["li_canonicalize", "langid", "li_from_parts"])],
            "rule": LOCALE_RULE + " || " + LANGID_RULE},
    "C05": {"runs": lambda tier: [run("locale", ops=["loc_roundtrip", "extmap", "loc_canonicalize", "loc_hist", "loc_built"], features=["likely"]), run("langid", ops=["li_roundtrip", "li_canonicalize"])],
            "rule": LOCALE_RULE},
    "C09": {"runs": lambda tier: [run("locale", ops=["loc_meta", "li_meta", "ext_meta"], features=["likely"])], "rule": LOCALE_RULE},
    "C10": {"runs": lambda tier: [run("locale", ops=["loc_hist", "loc_conv"], features=["likely"])], "rule": LOCALE_RULE},
    "C11": {"runs": lambda tier: [run("langid", ops=["li_matches", "lang_matches"]), run("langid", ops=["li_matches", "lang_matches"], features=["likely"]),
                                  run("locale", ops=["loc_matches"], features=["likely"])],
            "rule": LOCALE_RULE + " || the language-identifier product domain (6 languages incl. pa / az / uz x 4 scripts x 5 regions x 2 variant lists, plus every variant list of length <= 3 over three variants; all pairs x 4 flag pairs) is run without and with likelysubtags"},
    "C12": {"runs": lambda tier: [run("langid", ops=["li_cmp", "li_eq_str", "li_routes"], features=["likely"]), run("locale", ops=["loc_cmp"], features=["likely"]),
                                  dict(run("subtags", ops=["lang", "script", "region", "variant"]), only_impl_prefix=["INCONSISTENT =="])],
            "rule": LOCALE_RULE + " || " + LANGID_RULE + " || li_routes: the same logical value built along seven routes (parse, from_parts, field assignment from default(), re-parse of to_string, "
                    "overwriting every field of another identifier with reversed+duplicated variants, language.clear()+reassign, set_variants(&[])+set) compared pairwise with ==, cmp, hash, to_string, Debug"
                    " || suite `subtags` (the C15 inputs): only its `== &str` law counts here - true for the canonical text, false for every near miss (one character more / fewer / different, "
                    "re-cased, a separator or a further subtag appended, non-ASCII look-alikes)"},
    "C13": {"runs": lambda tier: [run("locale", ops=["both", "loc_conv", "loc_prefix"], features=["likely"])], "rule": LOCALE_RULE},
    "C20": {
        "runs": lambda tier: [dict(run("c20", features=f), digest=True) for f in
                              ([[], ["likely"], ["macros", "serde"], ["likely", "macros", "serde"]] if tier != "thorough" else
                               [[], ["likely"], ["serde"], ["macros"], ["likely", "serde"], ["likely", "macros"], ["macros", "serde"], ["likely", "macros", "serde"]])],
        "digest_compare": True,
        "rule": "suite `c20`: the same seeded corpus (regression corpus, token sequences, random well-formed locales and mutations through Locale / "
                "LanguageIdentifier / canonicalize of the impl AND facade crates, matches / cmp / hash pairs, operation histories without maximize/minimize) built "
                "and run under each feature configuration (quick: none, likelysubtags, macros+serde, all three; thorough: all eight); every transcript must equal the model's, "
                "the SHA-256 of the transcripts outside the character_direction column must be identical across configurations, and the SHA-256 of the "
                "character_direction column must be identical among the configurations with likelysubtags and among those without (cargo feature unification "
                "through a dependency declaration shows there)",
        "trusted_extra": ["cargo feature unification is exercised, not modelled"],
    },
    "C16": {
        "runs": lambda tier: [run("macros", features=["likely", "macros", "serde"])],
        "rule": "generated crates under _build/c16 (deleted after the run): every literal (fixed well-formed / ill-formed lists for the six element macros, random "
                "well-formed langids and locales with all extension shapes, odd case, '_' separators, `und`; 1-2 edit mutations) is classified by the model; those it "
                "accepts go into a crate that must COMPILE and whose values are compared at run time with run-time parsing (under catch_unwind), the others into a crate "
                "where rustc must report an error whose expansion root is the invocation's own line (cargo build --message-format=json); langids!/langid_slice!/locales! "
                "are checked against the element macro. non-trivial = distinct literals the model accepts",
        "trusted_extra": ["rustc, proc-macro-hack, syn/quote and error spans are exercised, not modelled"],
    },
    "C19": {"runs": lambda tier: [run("serde", features=["serde"])],
            "rule": "suite `serde` (harness built with the serde feature): C02's token-sequence space, random well-formed identifiers and mutations, each string "
                    "serialised (to_string and to_value) and deserialised through four serde_json paths (plain literal, all-\\uXXXX literal, Value::String, from_slice); "
                    "strings needing JSON escapes; fixed and random non-string JSON values. non-trivial = distinct inputs the model accepts",
            "trusted_extra": ["serde 1.x / serde_json 1.x are exercised, not modelled"]},
    "C17": {"runs": lambda tier: [run("subtags", ops=["lang_raw", "script_raw", "region_raw", "variant_raw"]),
                                  run("subtags", ops=["lang_raw", "script_raw", "region_raw", "variant_raw"], profile="debug"), run("langid", ops=["li_from_parts", "li_into_parts"]),
                                  run("locale", ops=["loc_into_parts", "loc_built"], features=["likely"]),
                                  dict(run("locale", ops=["loc_hist"], features=["likely"]), only_impl_contains=["LAWFAIL from_parts"])],
            "rule": LOCALE_RULE + " || histories: after every step from_parts(into_parts(value)) must give the value back (only that law counts here)"},

    "C06": {
        "runs": simple("likely", ops=["maximize", "li_maximize", "par_maximize", "seq_maximize"], features=["likely"]),
        "rule": LIKELY_RULE,
    },
    "C07": {
        "runs": simple("likely", ops=["maximize", "li_maximize", "par_maximize", "seq_maximize"], features=["likely"]),
        "rule": LIKELY_RULE + "; the C07 laws are also evaluated on the library alone inside the harness (LAWFAIL answers)",
    },
    "C08": {
        "runs": simple("likely", ops=["minimize", "li_minimize", "par_minimize", "seq_minimize"], features=["likely"]),
        "rule": LIKELY_RULE + "; the C08 laws are also evaluated on the library alone inside the harness (LAWFAIL answers)",
    },
    "C14": {
        "runs": lambda tier: [{"suite": "likely", "ops": ["direction_likely", "seq_direction_likely"], "features": ["likely"]},
                              {"suite": "likely", "ops": ["direction_plain", "seq_direction_plain"], "features": []}],
        "rule": LIKELY_RULE + "; run twice: with and without the likelysubtags feature",
    },
    "C18": {
        "runs": simple("likely", ops=["table_row", "table_len", "cldr_version", "maximize"], features=["likely"]),
        "rule": LIKELY_RULE,
    },
    "C02": {
        "runs": simple("langid", ops=["langid", "li_canonicalize", "li_iter", "par_langid", "seq_langid"]),
        "rule": LANGID_RULE,
    },
    "C15": {
        "runs": simple("subtags", ops=["lang", "script", "region", "variant"]),
        "rule": "G1: every byte string of length 0-2 (quick) / 0-3 (thorough), boundary-class strings of length 3-9, "
                "every single-byte substitution/extension of 14 valid subtags, random strings; each through the four "
                "subtag parsers (from_bytes, FromStr, TryFrom, as_str/Display/==&str cross-checked in the harness). "
                "non-trivial = distinct (operation, input) pairs that the model accepts",
    },
}

HOOK_COMMITS = ["7d046e5"]
NOT_CLAIMED = {}
