#!/usr/bin/env python3
"""seed_table_update.py — replace the rows of the seeded-change table of DESIGN.md section 10 (and only those) by the
rows generated from seeded/*/meta.json."""
import os, subprocess, sys
root = os.path.join(os.path.dirname(os.path.abspath(__file__)), "..")
p = os.path.join(root, "DESIGN.md")
t = open(p).read()
hdr = "| seeded change | what it does | needs | caught by (last run) |\n|---|---|---|---|\n"
assert t.count(hdr) == 1, "table header not found exactly once"
start = t.index(hdr) + len(hdr)
end = t.index("Strengthenings made because of seeded changes")
assert start < end
old_rows = t[start:end]
assert all(l.startswith("| C") or not l.strip() for l in old_rows.split("\n")), "unexpected content between header and end marker"
rows = subprocess.run([sys.executable, os.path.join(root, "tools", "seed_table.py")], capture_output=True, text=True, check=True).stdout
open(p, "w").write(t[:start] + rows + "\n" + t[end:])
print("rows:", rows.count("\n"))
