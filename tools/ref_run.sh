#!/bin/bash
# usage: ref_run.sh <dir with ref<k>/patch.diff> <first index under /verif/harmless> — apply each behaviour-preserving
# refactor to /repo, run every check (quick tier), record the verdict lines, undo it; serialised with the seed runs.
src=$1; n=${2:-1}
exec 9>/tmp/seed_run.lock; flock 9
for d in $src/ref*; do
  [ -f $d/patch.diff ] || continue
  dst=/verif/harmless/REF-$n; mkdir -p $dst; cp $d/patch.diff $d/meta.json $dst/
  git -C /repo apply $d/patch.diff || { echo "REF-$n PATCH DOES NOT APPLY"; n=$((n+1)); continue; }
  ( cd /verif && ./check all 2>&1 | grep -E "^(OK|VIOLATION|KNOWN)" ) > $dst/verdicts.txt
  git -C /repo checkout -- . ; git -C /repo clean -fdq
  echo "REF-$n: $(grep -c '^OK' $dst/verdicts.txt) OK, $(grep -c '^VIOLATION' $dst/verdicts.txt) VIOLATION"; grep '^VIOLATION' $dst/verdicts.txt
  n=$((n+1))
done
( cd /verif && python3 tools/translate.py /repo coq/gen > /dev/null )
