#!/bin/bash
# dev helper: compile one proof file of /verif/coq against the compiled tree of the scratch copy /tmp/verif2
f=$1
cp /verif/coq/$f /tmp/verif2/coq/$f
cd /tmp/verif2/coq && timeout ${2:-900} coqc -Q model UL -Q spec UL -Q proofs UL -Q gen UL -Q props UL -Q extract UL -w -notation-overridden $f 2>&1 | head -50
