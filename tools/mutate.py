#!/usr/bin/env python3
"""mutate.py — a small source-level mutation generator for the library crates of /repo, used to audit the
checks systematically (DESIGN.md section 10, "mutation sweep"): every mutant is ONE token-level change at ONE site.

  mutate.py list  <repo>            -> one JSON object per line: {"id", "file", "line", "op", "before", "after"}
  mutate.py apply <repo> <id>       -> rewrites the file in <repo> (use on a scratch worktree only)
  mutate.py props <file>            -> the properties whose checks are relevant to a source file

Operators: relational-operator replacement, && <-> ||, dropped negation, small integer literals +-1, inclusive <->
exclusive ranges, case-mapping / character-class / Option-predicate method swaps, true <-> false, Ok(true) <->
Ok(false), removal of a whole statement (sort / dedup / next / insert / push / assignment), guard neutralisation
(`if cond {` -> `if false {` / `if true {`)."""
import json, os, re, sys

FILES = [
    "unic-langid-impl/src/lib.rs", "unic-langid-impl/src/parser/mod.rs", "unic-langid-impl/src/subtags/language.rs",
    "unic-langid-impl/src/subtags/script.rs", "unic-langid-impl/src/subtags/region.rs", "unic-langid-impl/src/subtags/variant.rs",
    "unic-langid-impl/src/likelysubtags/mod.rs", "unic-langid-impl/src/serde.rs",
    "unic-locale-impl/src/lib.rs", "unic-locale-impl/src/parser/mod.rs", "unic-locale-impl/src/extensions/mod.rs",
    "unic-locale-impl/src/extensions/unicode.rs", "unic-locale-impl/src/extensions/transform.rs", "unic-locale-impl/src/extensions/private.rs",
]
PROPS = {
    "unic-langid-impl/src/lib.rs": ["C02", "C04", "C05", "C10", "C11", "C12", "C14", "C17", "C07", "C08", "C13"],
    "unic-langid-impl/src/parser/mod.rs": ["C02", "C03", "C13", "C09", "C01"],
    "unic-langid-impl/src/subtags/language.rs": ["C15", "C02", "C12", "C17", "C11"],
    "unic-langid-impl/src/subtags/script.rs": ["C15", "C02", "C17"],
    "unic-langid-impl/src/subtags/region.rs": ["C15", "C02", "C17"],
    "unic-langid-impl/src/subtags/variant.rs": ["C15", "C02", "C17"],
    "unic-langid-impl/src/likelysubtags/mod.rs": ["C06", "C07", "C08", "C14", "C01"],
    "unic-langid-impl/src/serde.rs": ["C19"],
    "unic-locale-impl/src/lib.rs": ["C03", "C04", "C11", "C13", "C17", "C12", "C05"],
    "unic-locale-impl/src/parser/mod.rs": ["C03", "C13", "C01"],
    "unic-locale-impl/src/extensions/mod.rs": ["C03", "C04", "C05", "C09", "C01", "C12"],
    "unic-locale-impl/src/extensions/unicode.rs": ["C03", "C04", "C05", "C09", "C10", "C01"],
    "unic-locale-impl/src/extensions/transform.rs": ["C03", "C04", "C05", "C09", "C10", "C01"],
    "unic-locale-impl/src/extensions/private.rs": ["C03", "C04", "C05", "C10", "C01"],
}

SWAPS = [
    ("to_ascii_lowercase", "to_ascii_uppercase"), ("to_ascii_uppercase", "to_ascii_lowercase"),
    ("is_ascii_alphabetic", "is_ascii_alphanumeric"), ("is_ascii_alphanumeric", "is_ascii_alphabetic"),
    ("is_ascii_digit", "is_ascii_alphanumeric"), ("is_ascii_alphanumeric", "is_ascii_digit"),
    ("is_some()", "is_none()"), ("is_none()", "is_some()"), ("is_ok()", "is_err()"), ("is_err()", "is_ok()"),
    ("Ok(true)", "Ok(false)"), ("Ok(false)", "Ok(true)"),
    ("sort_unstable()", "reverse()"), (".peek()", ".next()"),
    ("binary_search(", "binary_search_by(|_| std::cmp::Ordering::Less).or_else(|e: usize| Err::<usize, usize>(e)).and_then(|_: usize| Err::<usize, usize>(0)).or_else(|_: usize| self_search("),  # placeholder, filtered below
]
SWAPS = [s for s in SWAPS if "self_search" not in s[1]]


def code_lines(path):
    """(lineno, text) of the lines that are library code: no comments, attributes, use/mod lines, test modules"""
    lines = open(path).read().split("\n")
    out = []
    in_test = False
    for i, raw in enumerate(lines):
        s = raw.strip()
        if re.match(r"#\[cfg\(test\)\]", s):
            in_test = True
        if in_test:
            continue
        if not s or s.startswith("//") or s.startswith("#[") or s.startswith("#![") or s.startswith("use ") or s.startswith("pub use ") \
           or s.startswith("mod ") or s.startswith("pub mod ") or s.startswith("extern ") or s.startswith("pub(crate) use "):
            continue
        out.append((i, raw))
    return lines, out


def split_comment(raw):
    # cut a trailing // comment (no string literal in these sources contains //)
    m = re.search(r"\s//", raw)
    return (raw[:m.start()], raw[m.start():]) if m else (raw, "")


def mutants_of_line(code):
    """yield (op, before, after, new_code) for one code line"""
    # relational operators (with spaces around: excludes generics, arrows, shifts)
    for m in re.finditer(r" (==|!=|<=|>=|<|>) ", code):
        a = m.group(1)
        for b in {"==": ["!="], "!=": ["=="], "<": ["<=", ">"], "<=": ["<"], ">": [">=", "<"], ">=": [">"]}[a]:
            if "->" in code and a in "<>":
                continue
            yield ("rel", a, b, code[:m.start(1)] + b + code[m.end(1):])
    for m in re.finditer(r" (&&|\|\|) ", code):
        a = m.group(1)
        b = "||" if a == "&&" else "&&"
        yield ("logic", a, b, code[:m.start(1)] + b + code[m.end(1):])
    for m in re.finditer(r"(?<![\w)\]])!(?=[A-Za-z_(])(?!\()", code):
        if code[m.end():m.end() + 1] == "=":
            continue
        # skip macro invocations like write!(  (those have an identifier BEFORE the bang, excluded by the lookbehind)
        yield ("negation", "!", "", code[:m.start()] + code[m.end():])
    for m in re.finditer(r"(?<![\w.\"'])(\d)(?![\w.\"'])", code):
        d = int(m.group(1))
        for nd in ([d + 1] if d == 0 else [d - 1, d + 1]):
            if 0 <= nd <= 9:
                yield ("literal", str(d), str(nd), code[:m.start(1)] + str(nd) + code[m.end(1):])
    for m in re.finditer(r"\.\.=", code):
        yield ("range", "..=", "..", code[:m.start()] + ".." + code[m.end():])
    for m in re.finditer(r"(?<=\d)\.\.(?=\d)", code):
        yield ("range", "..", "..=", code[:m.start()] + "..=" + code[m.end():])
    for a, b in SWAPS:
        for m in re.finditer(re.escape(a), code):
            yield ("swap", a, b, code[:m.start()] + b + code[m.end():])
    for m in re.finditer(r"\b(true|false)\b", code):
        a = m.group(1)
        b = "false" if a == "true" else "true"
        yield ("bool", a, b, code[:m.start()] + b + code[m.end():])
    s = code.strip()
    # removal of a whole simple statement
    if re.match(r"^[\w.\[\]&*()]+\.(sort_unstable|dedup|next|clear|push|insert|remove|sort|reverse)\(.*\);$", s) or \
       re.match(r"^(self|\w+)(\.\w+)+ = .*;$", s) or re.match(r"^\w+ = .*;$", s):
        yield ("delete", s, "", code.replace(s, "{}") if s.endswith(";") else code)
    # neutralise a guard
    m = re.match(r"^(\s*(?:\} else )?if )(?!let )(.+)( \{)\s*$", code)
    if m:
        for b in ("false", "true"):
            yield ("guard", m.group(2), b, m.group(1) + b + m.group(3))


def all_mutants(repo):
    res = []
    for f in FILES:
        path = os.path.join(repo, f)
        if not os.path.exists(path):
            continue
        lines, code = code_lines(path)
        for i, raw in code:
            body, comment = split_comment(raw)
            if '"' in body and re.search(r'"[^"]*(==|<|>|&&|\d)[^"]*"', body):
                continue   # do not mutate inside string literals
            k = 0
            for op, a, b, new in mutants_of_line(body):
                if new == body:
                    continue
                res.append({"id": "%s:%d:%d" % (f, i + 1, k), "file": f, "line": i + 1, "op": op, "before": a, "after": b,
                            "old": raw, "new": new + comment})
                k += 1
    return res


def main():
    cmd = sys.argv[1]
    if cmd == "list":
        for m in all_mutants(sys.argv[2]):
            print(json.dumps(m))
    elif cmd == "apply":
        repo, mid = sys.argv[2], sys.argv[3]
        for m in all_mutants(repo):
            if m["id"] == mid:
                path = os.path.join(repo, m["file"])
                lines = open(path).read().split("\n")
                assert lines[m["line"] - 1] == m["old"], "source does not match"
                lines[m["line"] - 1] = m["new"]
                open(path, "w").write("\n".join(lines))
                print(json.dumps(m))
                return
        sys.exit("no such mutant: " + mid)
    elif cmd == "props":
        print(" ".join(PROPS.get(sys.argv[2], [])))


if __name__ == "__main__":
    main()
