#!/bin/bash
# usage: seedtest.sh <patch.diff> <prop> [<prop>...]  — apply a seeded change to /repo, run the checks, undo it.
patch=$1; shift
cd /repo || exit 2
git -C /repo apply --check "$patch" || { echo "PATCH DOES NOT APPLY"; exit 2; }
git -C /repo apply "$patch"
for p in "$@"; do
  ( cd /verif && ./check $p 2>&1 | grep -E "^(OK|VIOLATION|KNOWN)" | head -3 )
done
git -C /repo checkout -- .
git -C /repo clean -fdq
git -C /repo status --short | head -3
# the evidence files are rewritten by every run: restore them from the unchanged tree
( cd /verif && python3 tools/translate.py /repo coq/gen > /dev/null; for p in "$@"; do ./check $p > /dev/null 2>&1; done )
