#!/usr/bin/env python3
"""[SEED_BASE=/tmp/seed2 SEED_OUT_K=3] seed_confirm.py <Cxx> <k> [check ids...] — confirm a sub-agent's seeded change in its scratch worktree
(existing suite passes with the change; demo fails with it and passes without), run the given checks
against it in /repo (apply, check, undo) and file it under /verif/seeded/<Cxx>-<k>/."""
import json, os, re, shutil, subprocess, sys
pid, k = sys.argv[1], sys.argv[2]
checks = sys.argv[3:] or [pid]
wt = os.environ.get("SEED_WT") or "%s/%s" % (os.environ.get("SEED_BASE", "/tmp/seed"), pid)
out_k = os.environ.get("SEED_OUT_K", k)
src = os.environ.get("SEED_SRC") or "%s/OUT/change%s" % (wt, k)
meta = json.load(open(src + "/meta.json"))
env = dict(os.environ, CARGO_NET_OFFLINE="true")
def sh(cmd, cwd=None):
    p = subprocess.run(cmd, shell=True, cwd=cwd, env=env, stdout=subprocess.PIPE, stderr=subprocess.STDOUT)
    return p.returncode, p.stdout.decode("utf-8", "replace")
def clean():
    sh("git checkout -- . && git clean -fdq -e OUT -e target", wt)
clean()
ran = []
rc, out = sh("git apply %s/patch.diff" % src, wt)
assert rc == 0, "patch does not apply: " + out
rc, out = sh("cargo test --workspace --offline 2>&1 | grep -E '^test result|FAILED|error' ", wt)
suite_ok = "FAILED" not in out and "error" not in out and "test result: ok" in out
ran.append("with change: cargo test --workspace --offline -> %s" % ("all pass" if suite_ok else "FAILS:\n" + out[-800:]))
crate = meta.get("demo_crate", "").strip("/").split("/")[0] or "unic-locale-impl"
demo_cmd = meta.get("demo_cmd", "")
name = "seeded_demo_%s_%s" % (pid.lower(), out_k)
feat = ""
m = re.search(r"--features[ =]([\w,\-]+)", demo_cmd)
if m: feat = "--features " + m.group(1)
os.makedirs("%s/%s/tests" % (wt, crate), exist_ok=True)
shutil.copy(src + "/demo_test.rs", "%s/%s/tests/%s.rs" % (wt, crate, name))
cmd = "cargo test --offline -p %s %s --test %s 2>&1 | tail -15" % (crate, feat, name)
rc, out_with = sh(cmd, wt)
fails_with = any(k in out_with for k in ("test result: FAILED", "panicked", "could not compile", "SIGABRT", "overflowed its stack", "error: test failed", "SIGSEGV"))
ran.append("with change: %s -> %s" % (cmd, "FAILS (as required)" if fails_with else "does NOT fail:\n" + out_with[-600:]))
sh("git apply -R %s/patch.diff" % src, wt)
rc, out_wo = sh(cmd, wt)
passes_wo = "test result: ok" in out_wo and "FAILED" not in out_wo
ran.append("without change: same command -> %s" % ("passes (as required)" if passes_wo else "does NOT pass:\n" + out_wo[-600:]))
clean()
confirmed = suite_ok and fails_with and passes_wo
results = {}
if confirmed:
    rc, out = sh("git -C /repo apply %s/patch.diff" % src)
    assert rc == 0, out
    try:
        for c in checks:
            rc, out = sh("./check %s 2>&1 | grep -E '^(OK|VIOLATION|KNOWN)' | head -3" % c, "/verif")
            results[c] = out.strip()
    finally:
        sh("git -C /repo checkout -- . && git -C /repo clean -fdq")
        sh("python3 /verif/tools/translate.py /repo /verif/coq/gen")
        for c in checks:   # the evidence files are rewritten by every run: restore them from the unchanged tree
            sh("./check %s" % c, "/verif")
dst = "/verif/seeded/%s-%s" % (pid, out_k)
os.makedirs(dst, exist_ok=True)
shutil.copy(src + "/patch.diff", dst + "/patch.diff")
shutil.copy(src + "/demo_test.rs", dst + "/demo_test.rs")
meta.update({"confirmed": confirmed, "confirmed_by_me": ran, "checks_run": results,
             "caught_by": [c for c, o in results.items() if "VIOLATION" in o]})
json.dump(meta, open(dst + "/meta.json", "w"), indent=1)
print(pid, k, "confirmed" if confirmed else "NOT CONFIRMED", json.dumps(results))
if not confirmed:
    print("\n".join(ran))
