#!/usr/bin/env python3
"""Regenerates MANIFEST.json from tools/props_config.py (claimed = configured) and the fixed property list."""
import json, os, sys
ROOT = os.path.dirname(os.path.dirname(os.path.abspath(__file__)))
sys.path.insert(0, os.path.join(ROOT, "tools"))
import props_config as PC

props = [json.loads(l) for l in open(os.path.join(ROOT, "properties.jsonl"))]
claimed = set(PC.PROPS)
hooks_commits = PC.HOOK_COMMITS
man = {
    "version": 1,
    "setup_cmd": "./check setup",
    "hooks": {"guard": "unic_locale_verif",
              "enable": "RUSTFLAGS=\"--cfg unic_locale_verif\" (set by ./check when it builds /verif/harness against /repo's working tree)",
              "baseline_off_cmd": "cd /repo && cargo test --workspace --no-fail-fast --offline",
              "source_commits": hooks_commits, "add_only": True},
    "engines": [{"name": "coq-proof+correspondence", "path": "/verif/check", "serves_properties": sorted(claimed),
                 "kind_free_text": "Coq 8.16.1 theorems about a Gallina model (coq/model, coq/spec, coq/proofs, coq/props), a translator for data and "
                                   "source inventories (tools/translate.py -> coq/gen, regenerated every run), and a correspondence check: the model and "
                                   "specification extracted to OCaml (ExtrOcamlBasic only) versus the real crates driven by /verif/harness"}],
    "checks": [], "not_applicable": [],
    "notes": "See DESIGN.md. Genuine defects found and repaired are listed in known_findings.txt (fixed: lines suppress nothing).",
}
for p in props:
    pid = p["id"]
    if pid in claimed:
        cfg = PC.PROPS[pid]
        man["checks"].append({
            "property_id": pid,
            "quick_cmd": "./check %s --tier quick" % pid,
            "thorough_cmd": "./check %s --tier thorough" % pid,
            "evidence_file": "/verif/evidence/%s.json" % pid,
            "replay_cmd_template": "./check %s --replay {path}" % pid,
            "engine": "coq-proof+correspondence",
            "level_claimed": {"category": "proof",
                              "text": cfg.get("level_text", "machine-checked Coq theorems (coq/props/%s.v) over all inputs about the Gallina model, tied to /repo on every run by the regenerated data obligations and the model/implementation correspondence check" % pid),
                              "design_ref": "DESIGN.md section 3, " + pid},
            "level_note": cfg.get("level_note", "trusted: Coq kernel + VM, extraction (ExtrOcamlBasic), ocaml/driver.ml, the Rust harness, tools/translate.py; library code (tinystr, core/alloc) modelled by contract; the correspondence is bounded differential testing (sizes in the evidence)"),
            "technique": cfg.get("technique", "Coq proof (induction / case analysis / kernel-evaluated finite checks) + model-implementation correspondence"),
        })
    else:
        man["not_applicable"].append({"property_id": pid, "reason": PC.NOT_CLAIMED.get(pid, "not yet claimed: machinery for this property is still being built (plan in DESIGN.md section 3)")})
json.dump(man, open(os.path.join(ROOT, "MANIFEST.json"), "w"), indent=1)
print("claimed:", sorted(claimed))
