#!/usr/bin/env python3
"""mutrun.py <lane> <nlanes> [--sample N] — mutation sweep, one lane of several running in parallel.
Each lane owns a scratch git worktree of /repo (/tmp/mut<lane>/repo) and a scratch copy of /verif whose
check driver, harness and macro crates point at that worktree (/tmp/mut<lane>/verif); /repo and /verif are not
touched.  For every mutant of tools/mutate.py assigned to the lane:
  1. apply it to the worktree; `cargo test --workspace --offline` (the existing suite) - a mutant that does not
     compile or that the suite kills (failure, hang) is not interesting;
  2. run the quick checks of the properties relevant to the mutated file, in order, until one reports a VIOLATION;
  3. append the outcome to /tmp/mut<lane>/results.jsonl.
Survivors (suite passes, no check reports a violation) are the interesting rows: equivalent mutants or gaps."""
import json, os, random, subprocess, sys, time

lane, nl = int(sys.argv[1]), int(sys.argv[2])
sample = int(sys.argv[sys.argv.index("--sample") + 1]) if "--sample" in sys.argv else None
base = "/tmp/mut%d" % lane
repo, verif = base + "/repo", base + "/verif"
sys.path.insert(0, "/verif/tools")
import mutate

def sh(cmd, cwd=None, timeout=None, env=None):
    try:
        p = subprocess.run(cmd, shell=True, cwd=cwd, stdout=subprocess.PIPE, stderr=subprocess.STDOUT, timeout=timeout, env=env)
        return p.returncode, p.stdout.decode("utf-8", "replace")
    except subprocess.TimeoutExpired as e:
        return 124, (e.stdout or b"").decode("utf-8", "replace") + "\nTIMEOUT"

def setup():
    os.makedirs(base, exist_ok=True)
    if not os.path.exists(repo):
        sh("git -C /repo worktree add --detach %s HEAD" % repo)
        sh("cp /repo/Cargo.lock %s/" % repo)
    if not os.path.exists(verif):
        sh("rsync -a --exclude .git --exclude '_build/target*' --exclude '_build/transcripts' --exclude seeded --exclude harmless --exclude replays /verif/ %s/" % verif)
        sh("sed -i 's#\"/repo#\"%s#g; s#REPO = \"/repo\"#REPO = \"%s\"#' check harness/Cargo.toml tools/c16.py" % (repo, repo), cwd=verif)
        # generated files must be rebuilt against this worktree's (identical) data once
        sh("python3 tools/translate.py %s coq/gen" % repo, cwd=verif)

def main():
    setup()
    env = dict(os.environ, CARGO_NET_OFFLINE="true", CARGO_TARGET_DIR=base + "/target")
    ms = mutate.all_mutants(repo)
    if sample:
        random.Random(20261001).shuffle(ms)
        ms = ms[:sample]
    mine = [m for i, m in enumerate(ms) if i % nl == lane]
    done = set()
    resf = base + "/results.jsonl"
    if os.path.exists(resf):
        done = {json.loads(l)["id"] for l in open(resf)}
    for m in mine:
        if m["id"] in done:
            continue
        sh("git checkout -- . && git clean -fdq -e target", cwd=repo)
        rc, out = sh("python3 /verif/tools/mutate.py apply %s '%s'" % (repo, m["id"]))
        rec = {k: m[k] for k in ("id", "file", "line", "op", "before", "after")}
        rec["old"], rec["new"] = m["old"].strip(), m["new"].strip()
        t0 = time.time()
        rc, out = sh("timeout 600 cargo test --workspace --offline 2>&1 | tail -40", cwd=repo, timeout=700, env=env)
        if "could not compile" in out or "error[" in out or "error: " in out and "test failed" not in out and "test result" not in out:
            rec["outcome"] = "nocompile"
        elif "test result: FAILED" in out or "test failed" in out or "TIMEOUT" in out or "panicked" in out or rc == 124:
            rec["outcome"] = "killed-by-suite"
        else:
            rec["outcome"] = "survives-suite"
            rec["checks"] = {}
            for p in mutate.PROPS.get(m["file"], []):
                rc2, out2 = sh("timeout 3400 ./check %s 2>&1 | grep -E '^(OK|VIOLATION|KNOWN)' | head -3" % p, cwd=verif, timeout=3500)
                line = out2.strip().split("\n")[0] if out2.strip() else "NO-VERDICT"
                rec["checks"][p] = line[:200]
                if "VIOLATION" in line:
                    rec["outcome"] = "caught"
                    rec["caught_by"] = p
                    rec["with_input"] = "no-failing-input-found" not in line
                    break
            if rec["outcome"] == "survives-suite":
                rec["outcome"] = "SURVIVOR"
        rec["secs"] = round(time.time() - t0, 1)
        open(resf, "a").write(json.dumps(rec) + "\n")
        print(rec["id"], rec["outcome"], rec.get("caught_by", ""), flush=True)
    sh("git checkout -- . && git clean -fdq -e target", cwd=repo)

main()
