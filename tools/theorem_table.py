#!/usr/bin/env python3
"""theorem_table.py — regenerate the table of DESIGN.md section 9.8 from coq/props/C*.v (theorem names in file order)."""
import os, re
root = os.path.join(os.path.dirname(os.path.abspath(__file__)), "..")
p = os.path.join(root, "DESIGN.md")
t = open(p).read()
hdr = "| property | theorems | names |\n|---|---|---|\n"
assert t.count(hdr) == 1
start = t.index(hdr) + len(hdr)
end = t.index("\n\n", start)
assert all(l.startswith("| C") for l in t[start:end].split("\n") if l.strip()), "unexpected content in the theorem table"
rows, total = [], 0
for k in range(1, 21):
    pid = "C%02d" % k
    src = open(os.path.join(root, "coq", "props", pid + ".v")).read()
    names = re.findall(r"^(?:Theorem|Corollary)\s+(\w+)", src, re.M)
    total += len(names)
    rows.append("| %s | %d | %s |" % (pid, len(names), ", ".join("`%s`" % n for n in names)))
open(p, "w").write(t[:start] + "\n".join(rows) + t[end:])
print("theorems:", total)
