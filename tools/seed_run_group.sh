#!/bin/bash
# usage: seed_run_group.sh <worktree of a sub-agent that wrote several changes for different properties>
# each OUT/change<k>/meta.json names the property it breaks; confirmed and tested like seed_run.sh (serialised)
wt=$1
exec 9>/tmp/seed_run.lock; flock 9
for d in $wt/OUT/change*; do
  [ -f $d/patch.diff ] || continue
  k=${d##*change}
  pid=$(python3 -c "import json,re,sys; p=json.load(open('$d/meta.json')).get('property',''); m=re.search(r'C\d\d',p); print(m.group(0) if m else '')")
  [ -n "$pid" ] || { echo "$d: no property in meta.json"; continue; }
  n=1; while [ -e /verif/seeded/$pid-$n ]; do n=$((n+1)); done
  SEED_WT=$wt SEED_SRC=$d SEED_OUT_K=$n python3 /verif/tools/seed_confirm.py $pid $k $pid
done
