"""C16: generated crates of macro invocations.  `good` must compile and every macro value must equal
run-time parsing; `bad` must give a compile error whose expansion root is the invocation's line.
Produces the same protocol lines as the Rust harness, which ./check pipes into the oracle."""
import json, os, random, re, shutil, subprocess

REPO = "/repo"

CARGO_TOML = '''[package]
name = "c16-%s"
version = "0.0.0"
edition = "2021"
publish = false
[workspace]
[dependencies]
unic-langid = { path = "/repo/unic-langid", features = ["macros"] }
unic-locale = { path = "/repo/unic-locale", features = ["macros"] }
'''

A = "abcdefghijklmnopqrstuvwxyz"; D = "0123456789"; AN = A + D

def word(r, s, lo, hi): return "".join(r.choice(s) for _ in range(r.randint(lo, hi)))
def lang(r): return r.choice(["en", "und", "fr", "zh", "sr", "ar", word(r, A, 2, 3), word(r, A, 5, 8)])
def script(r): return r.choice(["Latn", "Cyrl", "Arab", word(r, A, 4, 4)])
def region(r): return r.choice(["US", "RS", "419", word(r, A, 2, 2), word(r, D, 3, 3)])
def variant(r): return r.choice(["valencia", "macos", "1996", r.choice(D) + word(r, AN, 3, 3), word(r, AN, 5, 8)])
def recase(r, s):
    m = r.randint(0, 3)
    s = "".join(c.upper() if (m == 1 or (m == 2 and r.random() < .5)) else c for c in s)
    return "".join(("_" if (c == "-" and r.random() < .25) else c) for c in s)
def wf_langid(r):
    t = [lang(r)]
    if r.random() < .4: t.append(script(r))
    if r.random() < .6: t.append(region(r))
    t += [variant(r) for _ in range(r.choice([0, 0, 0, 1, 1, 2, 3]))]
    return t
def wf_locale(r):
    t = wf_langid(r)
    u = []
    if r.random() < .6:
        u = ["u"] + [word(r, AN, 3, 8) for _ in range(r.randint(0, 2))]
        keys = set()
        for _ in range(r.randint(0, 3)):
            k = r.choice(AN) + r.choice(A)
            if k in keys: continue
            keys.add(k); u.append(k); u += [r.choice(["true", "buddhist", word(r, AN, 3, 8)]) for _ in range(r.randint(0, 2))]
        if len(u) == 1: u.append(word(r, AN, 3, 8))
    tr = []
    if r.random() < .5:
        tr = ["t"]
        if r.random() < .5:
            tl = wf_langid(r)
            if tl == ["und"]: tl = ["de"]
            tr += tl
        keys = set()
        for _ in range(r.randint(0, 2)):
            k = r.choice(A) + r.choice(D)
            if k in keys: continue
            keys.add(k); tr.append(k); tr += [r.choice(["hybrid", "true", word(r, AN, 3, 8)]) for _ in range(r.randint(1, 2))]
        if len(tr) == 1: tr += [r.choice(A) + r.choice(D), "names"]
    t += (u + tr) if r.random() < .5 else (tr + u)
    if r.random() < .25: t += ["x"] + [word(r, AN, 1, 8) for _ in range(r.randint(1, 3))]
    return t
def mutate(r, s):
    s = list(s)
    for _ in range(r.randint(1, 2)):
        p = r.randint(0, len(s))
        k = r.randint(0, 5)
        if k == 0 and s: del s[p % len(s)]
        elif k == 1: s.insert(p, r.choice("abz019-_* "))
        elif k == 2 and s: s[p % len(s)] = r.choice("atux09-*@")
        elif k == 3: s[p:p] = list(r.choice(["-u-", "-t-", "-a-", "-abcd", "-ux", "-x-"]))
        elif k == 4: s.insert(p, "-")
        else: s = s[:p]
    return "".join(s)

FIXED_GOOD = {
    "lang": ["en", "EN", "und", "UND", "eng", "abcde", "abcdefgh"],
    "script": ["Latn", "lATN", "cyrl"], "region": ["US", "us", "419"], "variant": ["valencia", "1996", "MACOS", "1abc", "a1b2c"],
    "langid": ["en", "und", "en_US", "eN_latn_Us-Valencia", "und-Latn", "sr-Cyrl-RS-1996-valencia-1996", "de-1996", "EN-us"],
    "locale": ["en", "und", "en-US-u-ca-buddhist", "en-u-ca-buddhist-t-h0-hybrid", "en-t-h0-hybrid-x-foo", "en-t-en-US-h0-hybrid-u-foo-ca-true",
               "pL_latn_pl-U-HC-H12", "en-x-a-b-c", "und-u-foo", "en-t-de-1996", "en-u-attr1-attr2-nu-latn-arab", "en-t-k1-true"],
}
FIXED_BAD = {
    "lang": ["", "e", "e1", "abcd", "abcdefghi", "en-US", "é"], "script": ["", "Lat", "Latin", "La1n"], "region": ["", "U", "USA", "12", "1234", "U1"],
    "variant": ["", "abcd", "abc", "abcdefghi", "1ab", "1ab.", "a-b"],
    "langid": ["", "e1", "en-", "en--US", "en-abcd", "en-Latn-Cyrl", "en-US-GB", "en-u-foo", "en US", "-en", "en-1ab"],
    "locale": ["", "en-a-foo", "en-US-ux-foo", "en-xyz", "en-u-foo-u-bar", "en-t-en-US-fr", "en-u-abcdefghi", "e1", "en-t-1a", "en-x-abcdefghi", "en-u-ca-*"],
}

def make_literals(tier, seed):
    r = random.Random(seed)
    n = 1200 if tier == "thorough" else 110
    lits = []   # (macro, literal)
    for m in ("lang", "script", "region", "variant", "langid", "locale"):
        for l in FIXED_GOOD[m] + FIXED_BAD[m]: lits.append((m, l))
    for _ in range(n):
        lits.append(("langid", recase(r, "-".join(wf_langid(r)))))
        lits.append(("locale", recase(r, "-".join(wf_locale(r)))))
        lits.append(("locale", mutate(r, "-".join(wf_locale(r)))))
        lits.append(("langid", mutate(r, "-".join(wf_langid(r)))))
    for _ in range(n // 3):
        lits.append(("lang", recase(r, lang(r)))); lits.append(("script", recase(r, script(r))))
        lits.append(("region", recase(r, region(r)))); lits.append(("variant", recase(r, variant(r))))
        lits.append((r.choice(["lang", "script", "region", "variant"]), mutate(r, r.choice([lang(r), script(r), region(r), variant(r)]))))
    seen, out = set(), []
    for m, l in lits:
        if (m, l) in seen or not all(32 <= ord(c) < 127 or c == "é" for c in l): continue
        seen.add((m, l)); out.append((m, l))
    return out

def rust_lit(s): return '"' + s.replace("\\", "\\\\").replace('"', '\\"') + '"'

def rust_lit_alt(s, i):
    """the same string VALUE spelled as another kind of Rust string literal (the run-time side always gets the plain one)"""
    plain = all(32 <= ord(c) < 127 and c not in '"\\' for c in s)
    if not plain: return rust_lit(s)
    k = i % 7
    if k == 1: return 'r"%s"' % s
    if k == 2: return 'r#"%s"#' % s
    if k == 3: return '"' + s.replace("-", "\\u{2d}").replace("_", "\\x5f") + '"'
    if k == 4 and s: return '"\\x%02x%s"' % (ord(s[0]), s[1:])
    return rust_lit(s)

TYPES = {"lang": ("unic_langid::subtags::Language", "lang!"), "script": ("unic_langid::subtags::Script", "script!"),
         "region": ("unic_langid::subtags::Region", "region!"), "variant": ("unic_langid::subtags::Variant", "variant!"),
         "langid": ("unic_langid::LanguageIdentifier", "langid!"), "locale": ("unic_locale::Locale", "locale!")}

def gen_good(lits):
    """one function per literal, its first line recorded; values compared with run-time parsing"""
    lines = ["#![allow(unused_imports, unused_unsafe)]", "mod fmt;", "use fmt::*;",
             "use unic_langid::{lang, langid, langids, langid_slice, region, script, variant};", "use unic_locale::{locale, locales};",
             "fn show<T: PartialEq, E>(op: &str, lit: &str, m: Result<T, Box<dyn std::any::Any + Send>>, r: Result<T, E>, f: &dyn Fn(&T) -> String) {",
             "    let res = match (m, r) { (Err(_), _) => \"RUNTIME-PANIC\".to_string(), (Ok(m), Ok(r)) => if m == r { format!(\"OK {}\", f(&m)) } else { \"DIFF\".to_string() }, (Ok(_), Err(_)) => \"RUNTIME-PARSE-ERR\".to_string() };",
             "    println!(\"{}\\t{}\\t=\\t{}\", op, hex(lit.as_bytes()), esc(&res));", "}"]
    where = {}
    for i, (m, l) in enumerate(lits):
        ty, mac = TYPES[m]
        f = {"lang": "&|x| format!(\"{} {}\", x.as_str(), if x.is_empty() { \"empty\" } else { \"full\" })", "script": "&|x| x.as_str().to_string()", "region": "&|x| x.as_str().to_string()",
             "variant": "&|x| x.as_str().to_string()", "langid": "&|x| fmt_li(x)", "locale": "&|x| fmt_loc(x)"}[m]
        lines.append("fn case_%d() {" % i)
        where[len(lines) + 1] = i
        lines.append("    let m = std::panic::catch_unwind(|| -> %s { %s(%s) });" % (ty, mac, rust_lit_alt(l, i)))
        lines.append("    show(\"macro_%s\", %s, m, %s.parse::<%s>(), %s);" % (m, rust_lit(l), rust_lit(l), ty, f))
        lines.append("}")
    lines.append("fn main() {")
    lines.append("    std::panic::set_hook(Box::new(|_| {}));")
    for i in range(len(lits)): lines.append("    case_%d();" % i)
    # the list macros are the element macro applied to each element
    lines.append("    let v: Vec<unic_langid::LanguageIdentifier> = langids![\"en-US\", \"fr\", \"de_1996\",];")
    lines.append("    let s: &[unic_langid::LanguageIdentifier] = langid_slice![\"en-US\", \"fr\", \"de_1996\"];")
    lines.append("    let l: Vec<unic_locale::Locale> = locales![\"en-US-u-ca-buddhist\", \"fr\",];")
    lines.append("    let e: Vec<unic_langid::LanguageIdentifier> = langids![];")
    # every list macro in every spelling (trailing comma or not, one element, none) in a position that fixes its type:
    # a typed let, a const / static item (the slice form is usable in constants), a function argument
    lines.append("    let s2: &[unic_langid::LanguageIdentifier] = langid_slice![\"en-US\", \"fr\", \"de_1996\",];")
    lines.append("    let s3: &[unic_langid::LanguageIdentifier] = langid_slice![\"en-US\"];")
    lines.append("    let s4: &[unic_langid::LanguageIdentifier] = langid_slice![\"en-US\",];")
    lines.append("    let s5: &[unic_langid::LanguageIdentifier] = langid_slice![];")
    lines.append("    const S6: &[unic_langid::LanguageIdentifier] = langid_slice![\"en-US\", \"fr\",];")
    lines.append("    static S7: &[unic_langid::LanguageIdentifier] = langid_slice![\"en-US\", \"fr\"];")
    lines.append("    fn takes_slice(x: &[unic_langid::LanguageIdentifier]) -> usize { x.len() }")
    lines.append("    fn takes_vec(x: Vec<unic_langid::LanguageIdentifier>) -> usize { x.len() }")
    lines.append("    fn takes_locs(x: Vec<unic_locale::Locale>) -> usize { x.len() }")
    lines.append("    let v2: Vec<unic_langid::LanguageIdentifier> = langids![\"en-US\", \"fr\", \"de_1996\"];")
    lines.append("    let v3: Vec<unic_langid::LanguageIdentifier> = langids![\"en-US\",];")
    lines.append("    let l2: Vec<unic_locale::Locale> = locales![\"en-US-u-ca-buddhist\", \"fr\"];")
    lines.append("    let l3: Vec<unic_locale::Locale> = locales![\"fr\",];")
    lines.append("    let l4: Vec<unic_locale::Locale> = locales![];")
    lines.append("    let spellings_ok = s2 == s && s3.len() == 1 && s4 == s3 && s5.is_empty() && S6.len() == 2 && S7 == S6 && S6[0] == s[0] && S6[1] == s[1]")
    lines.append("        && takes_slice(langid_slice![\"en\", \"de\",]) == 2 && takes_vec(langids![\"en\", \"de\",]) == 2 && takes_locs(locales![\"en\", \"de-u-ca-buddhist\",]) == 2")
    lines.append("        && v2 == v && v3.as_slice() == s3 && l2 == l && l3.len() == 1 && l3[0] == l[1] && l4.is_empty();")
    # long lists (300 literals): the list macros have no length limit below the compiler's own
    big = ["%s%s-%s%s" % (chr(97 + i % 26), chr(97 + (i // 26) % 26), chr(65 + (i * 7) % 26), chr(65 + (i * 11) % 26)) + ("-valencia" if i % 5 == 0 else "") for i in range(300)]
    bigl = [b + ("-u-ca-buddhist" if i % 3 == 0 else "-t-h0-hybrid" if i % 3 == 1 else "") for i, b in enumerate(big)]
    lines.append("    const BIG: [&str; 300] = [%s];" % ", ".join(rust_lit(b) for b in big))
    lines.append("    const BIGL: [&str; 300] = [%s];" % ", ".join(rust_lit(b) for b in bigl))
    lines.append("    let bv: Vec<unic_langid::LanguageIdentifier> = langids![%s];" % ", ".join(rust_lit(b) for b in big))
    lines.append("    let bs: &[unic_langid::LanguageIdentifier] = langid_slice![%s];" % ", ".join(rust_lit(b) for b in big))
    lines.append("    let bl: Vec<unic_locale::Locale> = locales![%s];" % ", ".join(rust_lit(b) for b in bigl))
    lines.append("    let big_ok = bv.len() == 300 && bs.len() == 300 && bl.len() == 300 && bv.as_slice() == bs")
    lines.append("        && bv.iter().zip(BIG.iter()).all(|(a, b)| *a == b.parse::<unic_langid::LanguageIdentifier>().unwrap())")
    lines.append("        && bl.iter().zip(BIGL.iter()).all(|(a, b)| *a == b.parse::<unic_locale::Locale>().unwrap());")
    lines.append("    let ok = v.len() == 3 && s.len() == 3 && l.len() == 2 && e.is_empty() && v.as_slice() == s && v[0] == \"en-US\".parse::<unic_langid::LanguageIdentifier>().unwrap() && v[2] == \"de-1996\".parse::<unic_langid::LanguageIdentifier>().unwrap() && l[0] == \"en-US-u-ca-buddhist\".parse::<unic_locale::Locale>().unwrap();")
    lines.append("    println!(\"#LISTS\\t{}\", ok && big_ok && spellings_ok);")
    lines.append("}")
    return "\n".join(lines) + "\n", where

def gen_bad(lits):
    lines = ["#![allow(unused_imports, unused_unsafe, dead_code)]", "use unic_langid::{lang, langid, region, script, variant};", "use unic_locale::locale;"]
    where = {}
    for i, (m, l) in enumerate(lits):
        lines.append("fn case_%d() {" % i)
        where[len(lines) + 1] = i
        lines.append("    let _ = %s(%s);" % (TYPES[m][1], rust_lit(l)))
        lines.append("}")
    lines.append("fn main() {}")
    return "\n".join(lines) + "\n", where

def root_line(span):
    while span.get("expansion"):
        span = span["expansion"]["span"]
    return span.get("file_name", ""), span.get("line_start", 0)

def cargo_build(d, env, target):
    p = subprocess.run(["cargo", "build", "--offline", "--message-format=json"], cwd=d, env=dict(env, CARGO_TARGET_DIR=target),
                       stdout=subprocess.PIPE, stderr=subprocess.PIPE, timeout=3000)
    err_lines, other = set(), []
    for line in p.stdout.decode("utf-8", "replace").splitlines():
        try: j = json.loads(line)
        except Exception: continue
        if j.get("reason") != "compiler-message": continue
        msg = j["message"]
        if msg.get("level") != "error": continue
        hit = False
        for sp in msg.get("spans", []):
            f, ln = root_line(sp)
            if f.endswith("src/main.rs"): err_lines.add(ln); hit = True
        if not hit and "aborting due to" not in msg.get("message", ""):
            other.append(msg.get("message", "")[:200])
    return p.returncode, err_lines, other, p.stderr.decode("utf-8", "replace")[-1500:]

def setup_crate(base, name, main_src):
    d = os.path.join(base, name)
    os.makedirs(os.path.join(d, "src"), exist_ok=True)
    open(os.path.join(d, "Cargo.toml"), "w").write(CARGO_TOML % name)
    shutil.copy(os.path.join(REPO, "Cargo.lock"), os.path.join(d, "Cargo.lock"))
    shutil.copy(os.path.join(os.path.dirname(os.path.dirname(os.path.abspath(__file__))), "macro_tpl", "fmt.rs"), os.path.join(d, "src", "fmt.rs"))
    open(os.path.join(d, "src", "main.rs"), "w").write(main_src)
    return d

def run(tier, seed, build_dir, env, classify):
    """classify(lits) -> list of model answers ("OK ..."/"COMPILE-ERROR"/...) used only to split good/bad crates.
    Returns (protocol_lines, notes)."""
    lits = make_literals(tier, seed)
    model = classify(lits)
    good = [x for x, m in zip(lits, model) if m.startswith("OK")]
    bad = [x for x, m in zip(lits, model) if not m.startswith("OK")]
    base = os.path.join(build_dir, "c16")
    target = os.path.join(build_dir, "target-c16")
    out, notes = [], {"good": len(good), "bad": len(bad), "rebuilds": 0}
    # ---- good crate: iterate, dropping invocations that do not compile
    remaining = list(good)
    for attempt in range(6):
        src, where = gen_good(remaining)
        d = setup_crate(base, "good", src)
        rc, err_lines, other, stderr = cargo_build(d, env, target)
        if rc == 0: break
        failed = sorted({where[l] for l in err_lines if l in where})
        notes["rebuilds"] += 1
        if not failed:
            notes["good_build_error"] = (other or [stderr])[:3]
            remaining = []
            break
        for i in failed:
            m, l = remaining[i]
            out.append("macro_%s\t%s\t=\tCOMPILE-ERROR" % (m, l.encode().hex()))
        remaining = [x for i, x in enumerate(remaining) if i not in failed]
    if remaining:
        p = subprocess.run([os.path.join(target, "debug", "c16-good")], stdout=subprocess.PIPE, stderr=subprocess.PIPE, timeout=600)
        txt = p.stdout.decode("utf-8", "replace")
        for line in txt.splitlines():
            if line.startswith("#LISTS"): notes["list_macros_ok"] = line.split("\t")[1] == "true"
            elif line and not line.startswith("#"): out.append(line)
        if p.returncode != 0: notes["good_run_exit"] = p.returncode
    # ---- bad crate: every invocation must produce an error rooted at its own line
    if bad:
        src, where = gen_bad(bad)
        d = setup_crate(base, "bad", src)
        rc, err_lines, other, stderr = cargo_build(d, env, target)
        lines_of = {i: l for l, i in where.items()}
        for i, (m, l) in enumerate(bad):
            res = "COMPILE-ERROR" if lines_of[i] in err_lines else "COMPILED"
            out.append("macro_%s\t%s\t=\t%s" % (m, l.encode().hex(), res))
        stray = [l for l in err_lines if l not in where]
        if stray: notes["bad_stray_error_lines"] = stray[:5]
    shutil.rmtree(base, ignore_errors=True)   # generated crates are deleted after each run
    return out, notes
