#!/bin/bash
# usage: goal.sh <file.v> <line>  — show the proof state just before <line> (dev helper only)
f=$1; n=$2
tmp=$(mktemp -d /tmp/goalXXXX)
head -n $((n-1)) "$f" > $tmp/G.v
echo 'Show.' >> $tmp/G.v
cd /verif/coq && coqc -Q model UL -Q spec UL -Q proofs UL -Q gen UL -Q props UL $tmp/G.v 2>&1 | head -${3:-60}
rm -rf $tmp
